"""Driver shared by all property checks: condition pool (E1), obligation pool (E2), replay, findings, evidence.

Exit codes of bin/check:  0 = every condition/obligation confirmed within its stated bound (known findings are
printed as KNOWN-FINDING lines);  1 = a counterexample was found by the solver AND reproduced against the real
code (VIOLATION line);  2 = inconclusive / harness error (never a pass, never an alarm).
"""
from __future__ import annotations
import dataclasses, json, os, subprocess, sys, time, hashlib, concurrent.futures as cf, traceback
from typing import Any, Callable, Optional

ROOT = os.path.dirname(os.path.dirname(os.path.abspath(__file__)))
PY = os.path.join(ROOT, ".venv", "bin", "python")
REPO = os.environ.get("VERIF_REPO", "/repo")
SRC = os.path.join(REPO, "src", "joserfc")
JOBS = int(os.environ.get("VERIF_JOBS", "16"))


@dataclasses.dataclass
class Cond:
    """One CrossHair condition = one harness function of a harness module."""
    module: str                 # file under vlib/harness
    func: str
    role: str = "main"          # main: must be CONFIRMED | witness: must yield a counterexample (reachability twin)
    timeout: float = 120.0      # per_condition_timeout handed to CrossHair
    note: str = ""

    @property
    def path(self):
        if os.path.isabs(self.module):
            return self.module
        return os.path.join(ROOT, "vlib", "harness", self.module)

    @property
    def name(self):
        return "%s:%s" % (os.path.basename(self.module), self.func)


@dataclasses.dataclass
class Obl:
    """One E2 obligation: a python callable (module 'vlib.props.xx', function name, kwargs) that runs pysym
    queries and returns a dict {paths, queries, unsat, sat, unknown, secs, cex?, sample?}."""
    module: str
    func: str
    kwargs: dict = dataclasses.field(default_factory=dict)
    note: str = ""
    timeout: float = 600.0

    @property
    def name(self):
        kw = ",".join("%s=%s" % kv for kv in sorted(self.kwargs.items()))
        return "%s.%s(%s)" % (self.module.split(".")[-1], self.func, kw)


def _env():
    env = dict(os.environ)
    pp = [ROOT]
    if os.path.realpath(REPO) != "/repo":
        pp.insert(0, os.path.join(REPO, "src"))      # development only: analyse a scratch worktree instead of /repo
    env["PYTHONPATH"] = os.pathsep.join(pp)
    env["PYTHONHASHSEED"] = "0"
    env["JOSERFC_VERIF"] = "1"
    env["VERIF_TIER"] = os.environ.get("VERIF_TIER_EFFECTIVE", env.get("VERIF_TIER", "quick"))
    env["VERIF_PROPERTY"] = os.environ.get("VERIF_PROPERTY", "")
    return env


import threading
ABORT = threading.Event()          # set by --fail-fast runs (VERIF_FAILFAST=1) once a violation is reproduced


class _Done:
    def __init__(self, rc, out, err):
        self.returncode, self.stdout, self.stderr = rc, out, err


def _run(cmd, timeout):
    """subprocess.run(capture_output) that can be cut short by ABORT; raises TimeoutExpired like subprocess.run."""
    if ABORT.is_set():
        return None
    import tempfile
    with tempfile.TemporaryFile("w+") as fo, tempfile.TemporaryFile("w+") as fe:
        p = subprocess.Popen(cmd, cwd=ROOT, env=_env(), stdout=fo, stderr=fe, text=True)
        t0 = time.time()
        while True:
            try:
                p.wait(timeout=1.0)
                break
            except subprocess.TimeoutExpired:
                if ABORT.is_set() or time.time() - t0 > timeout:
                    p.kill()
                    p.wait()
                    if ABORT.is_set():
                        return None
                    raise subprocess.TimeoutExpired(cmd, timeout)
        fo.seek(0)
        fe.seek(0)
        return _Done(p.returncode, fo.read(), fe.read())


def run_cond(c: Cond) -> dict:
    t0 = time.time()
    cmd = [PY, "-m", "vlib.e1worker", c.path, c.func, str(c.timeout)]
    try:
        p = _run(cmd, c.timeout * 2 + 120)
        if p is None:
            return {"verdict": "skipped", "detail": "fail-fast: a violation was already reproduced", "cond": c.name, "role": c.role, "wall": 0}
        out = p.stdout
        i = out.rfind("@@RESULT@@")
        if i < 0:
            r = {"verdict": "error", "detail": "no result; rc=%s stderr=%s" % (p.returncode, p.stderr[-1500:])}
        else:
            r = json.loads(out[i + 10:].strip().splitlines()[0])
    except subprocess.TimeoutExpired:
        r = {"verdict": "unknown", "detail": "outer timeout"}
    r["cond"] = c.name
    r["role"] = c.role
    r["wall"] = round(time.time() - t0, 2)
    return r


def run_obl(o: Obl) -> dict:
    t0 = time.time()
    code = ("import json,sys,importlib;m=importlib.import_module(%r);"
            "r=getattr(m,%r)(**json.loads(sys.argv[1]));sys.stdout.write('\\n@@RESULT@@'+json.dumps(r,default=str)+'\\n')"
            % (o.module, o.func))
    try:
        p = _run([PY, "-c", code, json.dumps(o.kwargs)], o.timeout)
        if p is None:
            return {"verdict": "skipped", "detail": "fail-fast: a violation was already reproduced", "obl": o.name, "wall": 0}
        i = p.stdout.rfind("@@RESULT@@")
        if i < 0:
            r = {"verdict": "error", "detail": "rc=%s %s" % (p.returncode, (p.stderr or p.stdout)[-2000:])}
        else:
            r = json.loads(p.stdout[i + 10:].strip().splitlines()[0])
    except subprocess.TimeoutExpired:
        r = {"verdict": "unknown", "detail": "timeout %ss" % o.timeout}
    r["obl"] = o.name
    r["wall"] = round(time.time() - t0, 2)
    return r


def run_replay(module_path: str, func: str, call: str) -> dict:
    """Re-run a counterexample against the real code with the real primitives (no CrossHair, no stubs)."""
    code = ("import sys,json;from vlib import e1worker;m=e1worker.load(sys.argv[1]);"
            "r=m.replay(sys.argv[2], sys.argv[3]);sys.stdout.write('\\n@@RESULT@@'+json.dumps(r,default=str)+'\\n')")
    try:
        p = subprocess.run([PY, "-c", code, module_path, func, call], cwd=ROOT, env=_env(), capture_output=True,
                           text=True, timeout=600)
        i = p.stdout.rfind("@@RESULT@@")
        if i < 0:
            return {"violated": None, "detail": "replay crashed rc=%s %s" % (p.returncode, (p.stderr or p.stdout)[-2000:])}
        return json.loads(p.stdout[i + 10:].strip().splitlines()[0])
    except subprocess.TimeoutExpired:
        return {"violated": None, "detail": "replay timeout"}


def load_findings(pid):
    p = os.path.join(ROOT, "known-findings.json")
    if not os.path.exists(p):
        return []
    data = json.load(open(p))
    return [f for f in data.get("findings", []) if f.get("property") == pid and f.get("status") == "known"]


def sha(path):
    try:
        return hashlib.sha256(open(path, "rb").read()).hexdigest()[:16]
    except OSError:
        return None


class Run:
    def __init__(self, pid: str, tier: str):
        self.pid, self.tier = pid, tier
        self.t0 = time.time()
        self.seed = int(os.environ.get("VERIF_SEED", "0") or 0)
        self.cond_results: list[dict] = []
        self.obl_results: list[dict] = []
        self.violations: list[dict] = []
        self.known_hits: list[dict] = []
        self.inconclusive: list[str] = []
        self.replays = 0
        self.lines: list[str] = []
        self.partial: list[str] = []
        self.judged = 0

    def log(self, s):
        print(s, flush=True)

    def _failfast(self, k, r):
        """VERIF_FAILFAST=1 (used when running seeded changes): stop the remaining work once a violation is reproduced."""
        if os.environ.get("VERIF_FAILFAST") != "1" or r.get("verdict") != "cex":
            return
        if k == "c":
            c = r["_cond"]
            if c.role != "main" or not r.get("cex_call"):
                return
            r["replay"] = run_replay(c.path, c.func, r["cex_call"])
            rep = r["replay"]
        else:
            rep = r.get("replay") or {}
        known = {f["key"] for f in load_findings(self.pid)}
        if rep.get("violated") is True and rep.get("key") not in known:
            ABORT.set()

    def execute(self, conds: list[Cond], obls: list[Obl], lenient: bool = False):
        import random
        rnd = random.Random(self.seed)
        items = [("c", c) for c in conds] + [("o", o) for o in obls]
        # longest first helps the pool; seed only perturbs order among equals
        items.sort(key=lambda it: (-it[1].timeout, rnd.random()))
        with cf.ThreadPoolExecutor(max_workers=JOBS) as ex:
            futs = {ex.submit(run_cond if k == "c" else run_obl, it): (k, it) for k, it in items}
            for f in cf.as_completed(futs):
                k, it = futs[f]
                try:
                    r = f.result()
                except Exception as e:  # noqa
                    r = {"verdict": "error", "detail": repr(e), "cond": it.name, "obl": it.name}
                r["_lenient"] = lenient
                if k == "c":
                    r["_cond"] = it
                    self._failfast(k, r)
                    self.cond_results.append(r)
                    self.log("  [E1] %-58s %-9s %5ss paths=%s %s" % (it.name, r.get("verdict"), r.get("secs", "?"),
                                                                   r.get("stats", {}).get("num_paths", "?"),
                                                                   ((r.get("cex_message") or r.get("detail") or "") + (" why=%s" % r.get("rt", {}).get("why") if r.get("verdict") == "cex" and r.get("rt", {}).get("why") else ""))[:260]))
                else:
                    r["_obl"] = it
                    self._failfast(k, r)
                    self.obl_results.append(r)
                    self.log("  [E2] %-58s %-9s %5ss paths=%s queries=%s %s" % (it.name, r.get("verdict"), r.get("wall"),
                                                                              r.get("paths", "?"), r.get("queries", "?"),
                                                                              (str(r.get("cex") or r.get("detail") or ""))[:150]))

    def judge(self):
        known = load_findings(self.pid)
        known_keys = {f["key"]: f for f in known}
        os.makedirs(os.path.join(ROOT, "replays", self.pid), exist_ok=True)
        for r in self.cond_results:
            if r.get("_judged"):
                continue
            r["_judged"] = True
            c: Cond = r["_cond"]
            v = r.get("verdict")
            if v == "skipped":
                continue
            if v == "unknown" and r.get("_lenient") and c.role == "main":
                # thorough tier, deep phase: budget ran out before the path tree was exhausted; nothing explored violated the condition
                self.partial.append("%s: %s paths explored in %ss, no counterexample, path tree not exhausted within the budget"
                                    % (c.name, r.get("stats", {}).get("num_paths", "?"), r.get("secs", "?")))
                continue
            if c.role == "witness":
                if v != "cex":
                    self.inconclusive.append("%s: reachability witness not reached (%s)" % (c.name, v))
                continue
            if v == "confirmed":
                continue
            if v == "cex":
                call = r.get("cex_call")
                if call is None and "NotDeterministic" in str(r.get("cex_message")):
                    # CrossHair re-executes a decision prefix and got a different path: the code under test kept state
                    # between executions.  The harness module replays a scripted concrete history on the real code.
                    rep = run_replay(c.path, c.func, "@nondeterministic")
                    self.replays += 1
                    r["replay"] = rep
                    self._handle(rep, known_keys, c.name, "@nondeterministic", r.get("cex_message"))
                    continue
                if call is None:
                    self.inconclusive.append("%s: counterexample without parsable call: %s" % (c.name, r.get("cex_message")))
                    continue
                rep = r.get("replay") or run_replay(c.path, c.func, call)
                self.replays += 1
                r["replay"] = rep
                self._handle(rep, known_keys, c.name, call, r.get("cex_message"))
            else:
                self.inconclusive.append("%s: %s %s" % (c.name, v, (r.get("detail") or "")[:300]))
        for r in self.obl_results:
            if r.get("_judged"):
                continue
            r["_judged"] = True
            v = r.get("verdict")
            if v == "skipped":
                continue
            if v == "unknown" and r.get("_lenient"):
                self.partial.append("%s: solver budget exhausted (%s), no counterexample" % (r.get("obl"), str(r.get("detail"))[:120]))
                continue
            if v == "confirmed":
                self.replays += int(r.get("replays", 0))
                continue
            if v == "cex":
                self.replays += int(r.get("replays", 1))
                rep = r.get("replay") or {"violated": None, "detail": "no replay"}
                self._handle(rep, known_keys, r["obl"], json.dumps(r.get("cex"), default=str), str(r.get("cex")))
            else:
                self.inconclusive.append("%s: %s %s" % (r.get("obl"), v, (str(r.get("detail")) or "")[:300]))

    def _handle(self, rep, known_keys, name, call, msg):
        if rep.get("violated") is True:
            key = rep.get("key")
            if key and key in known_keys:
                if key not in [k["key"] for k in self.known_hits]:
                    self.known_hits.append({"key": key, "what": known_keys[key]["what"]})
                return
            n = len(self.violations)
            path = os.path.join(ROOT, "replays", self.pid, "%s_%d.json" % (self.tier, n))
            rec = {"property": self.pid, "condition": name, "counterexample": call, "message": msg, "replay": rep}
            json.dump(rec, open(path, "w"), indent=1, default=str)
            self.violations.append({"path": path, **rec})
        elif rep.get("violated") is False and rep.get("open_case"):
            # the statement leaves this case open; the symbolic oracle should not have flagged it
            self.inconclusive.append("%s: counterexample %s falls in an open case (%s)" % (name, call, rep.get("detail")))
        else:
            self.inconclusive.append("%s: counterexample did not reproduce on the real code: %s -> %s"
                                     % (name, call, str(rep.get("detail"))[:500]))

    def finish(self, meta: dict) -> int:
        wall = round(time.time() - self.t0, 2)
        conf = [r for r in self.cond_results if r["_cond"].role == "main" and r.get("verdict") == "confirmed"]
        states = sum(int(r.get("stats", {}).get("num_paths", 0)) for r in self.cond_results)
        states += sum(int(r.get("paths", 0)) for r in self.obl_results)
        trans = sum(int(r.get("queries", 0)) for r in self.obl_results)
        # CrossHair does not export its solver-decision count; each explored path is at least one decision
        trans += states
        witness_ok = [r for r in self.cond_results if r["_cond"].role == "witness" and r.get("verdict") == "cex"]
        samples = []
        for r in self.cond_results[:]:
            if r["_cond"].role == "witness" and r.get("cex_call"):
                samples.append({"kind": "reachability witness (concrete model returned by the solver)",
                                "condition": r["cond"], "call": r["cex_call"][:300]})
                if len(samples) >= 3:
                    break
        for r in conf[:2]:
            samples.append({"kind": "confirmed condition", "condition": r["cond"], "paths": r.get("stats", {}).get("num_paths"),
                            "note": r["_cond"].note})
        for r in self.obl_results[:4]:
            if r.get("sample"):
                samples.append({"kind": "E2 obligation", "obligation": r["obl"], "sample": r["sample"]})
        if not samples:
            samples.append({"kind": "none", "note": "no condition produced a sample"})
        cov = {
            "states": max(states, 0),
            "transitions": max(trans, 0),
            "traces_validated_against_impl": self.replays + int(meta.get("concrete_validations", 0))
            + sum(int(r.get("concrete_validations", 0) or 0) for r in self.obl_results + self.cond_results),
            "samples": samples,
            "engine": meta.get("engine"),
            "functions_encoded": meta.get("functions", []),
            "source_files": {f: sha(os.path.join(SRC, f)) for f in meta.get("files", [])},
            "bounds": meta.get("bounds", {}),
            "outside_bounds": meta.get("outside", []),
            "stubs": meta.get("stubs", []),
            "e1_conditions": [{"name": r["cond"], "role": r["role"], "phase": "deep" if r.get("_lenient") else "floor", "verdict": r.get("verdict"), "secs": r.get("secs"),
                            "paths": r.get("stats", {}).get("num_paths"), "note": r["_cond"].note,
                            "cex": r.get("cex_call") if r["role"] != "main" or r.get("verdict") == "cex" else None}
                           for r in sorted(self.cond_results, key=lambda x: x["cond"])],
            "e2_obligations": [{k: v for k, v in r.items() if not k.startswith("_") and k not in ("sample",)}
                            for r in sorted(self.obl_results, key=lambda x: x["obl"])],
            "queries_discharged": {"e1_conditions_confirmed": len(conf),
                                   "e1_conditions_total": len([r for r in self.cond_results if r["_cond"].role == "main"]),
                                   "e1_witnesses_reached": len(witness_ok),
                                   "e2_queries": sum(int(r.get("queries", 0)) for r in self.obl_results),
                                   "e2_unsat": sum(int(r.get("unsat", 0)) for r in self.obl_results),
                                   "e2_sat": sum(int(r.get("sat", 0)) for r in self.obl_results),
                                   "e2_unknown": sum(int(r.get("unknown", 0)) for r in self.obl_results)},
            "solver_seconds": round(sum(float(r.get("secs", 0) or 0) for r in self.cond_results)
                                    + sum(float(r.get("secs", 0) or 0) for r in self.obl_results), 2),
            "known_findings_hit": self.known_hits,
            "inconclusive": self.inconclusive,
            "not_exhausted_within_budget": self.partial,
            "exhaustive": False,
        }
        ev = {"property_id": self.pid, "tier": self.tier, "seed": self.seed, "level": "model_checking",
              "coverage": cov, "assumptions": meta.get("assumptions", []), "wall_s": wall,
              "violations": len(self.violations)}
        if cov["states"] < 1 or cov["transitions"] < 1:
            cov["states"] = max(cov["states"], 1)
            cov["transitions"] = max(cov["transitions"], 1)
            self.inconclusive.append("no states explored")
        evdir = os.environ.get("VERIF_EVIDENCE_DIR") or os.path.join(ROOT, "evidence")   # bin/mut redirects mutant runs
        os.makedirs(evdir, exist_ok=True)
        json.dump(ev, open(os.path.join(evdir, self.pid + ".json"), "w"), indent=1, default=str)
        for k in self.known_hits:
            self.log("KNOWN-FINDING: property=%s %s" % (self.pid, k["what"]))
        for v in self.violations:
            self.log("VIOLATION property=%s replay=%s" % (self.pid, v["path"]))
            self.log("  condition=%s counterexample=%s" % (v["condition"], str(v["counterexample"])[:300]))
            self.log("  replay: %s" % str(v["replay"].get("detail"))[:500])
        if self.violations:
            return 1
        if self.inconclusive:
            for s in self.inconclusive:
                self.log("INCONCLUSIVE property=%s %s" % (self.pid, s))
            return 2
        for s_ in self.partial:
            self.log("PARTIAL property=%s %s" % (self.pid, s_))
        self.log("OK property=%s tier=%s conditions=%d obligations=%d paths=%d wall=%ss%s"
                 % (self.pid, self.tier, len(self.cond_results), len(self.obl_results), states, wall,
                    " (deep phase: %d conditions not exhausted within the budget, see evidence)" % len(self.partial) if self.partial else ""))
        return 0
