"""Run ONE CrossHair condition (one harness function) in this process and print a JSON verdict.

usage: python -m vlib.e1worker MODULE_FILE FUNC PER_CONDITION_TIMEOUT [PER_PATH_TIMEOUT]
The deciding step is CrossHair's (symbolic execution + z3): CONFIRMED means "postcondition holds on every
path for every value satisfying the precondition"; POST_FAIL/EXEC_ERR carry a concrete counterexample.
"""
import sys, json, time, collections, importlib.util, os, re, traceback


def load(path):
    name = "vh_" + os.path.splitext(os.path.basename(path))[0]
    spec = importlib.util.spec_from_file_location(name, path)
    mod = importlib.util.module_from_spec(spec)
    sys.modules[name] = mod
    spec.loader.exec_module(mod)
    return mod


class ContractDelegation(BaseException):
    pass


def strip_contracts(mod, keep=None):
    """CrossHair ENFORCES the PEP-316 contract of every function that is called during an analysis and silently ignores a path on
    which a callee's postcondition fails ("it will be surfaced more locally"), so a harness that delegates to another
    contract-bearing harness function would be confirmed vacuously.  (The contracts are parsed from the SOURCE, so they cannot be
    stripped at run time.)  Guard: every other contract-bearing function of a harness module is replaced by a trap; delegation
    makes the condition end as a harness error, never as a pass.  Shared bodies must live in functions without contracts
    (base modules for vlib.gen spell their contracts PRE:/POST:, which CrossHair does not recognise)."""
    import types
    for name, obj in list(vars(mod).items()):
        if isinstance(obj, types.FunctionType) and name != keep and obj.__doc__ and re.search(r"^\s*(post|pre):", obj.__doc__, re.M):
            def trap(*a, _n=name, **k):
                raise ContractDelegation("harness function %s carries a contract and must not be called by another harness" % _n)
            setattr(mod, name, trap)


def main():
    path, func, tmo = sys.argv[1], sys.argv[2], float(sys.argv[3])
    ppt = float(sys.argv[4]) if len(sys.argv) > 4 else None
    t0 = time.time()
    out = {"module": path, "func": func, "timeout": tmo}
    try:
        mod = load(path)
        strip_contracts(mod, keep=func)
        for m in list(sys.modules.values()):
            if getattr(m, "__name__", "").startswith("vh_") and m is not mod:
                strip_contracts(m)
        from crosshair.core_and_libs import analyze_function, run_checkables
        from crosshair.options import AnalysisOptionSet
        from crosshair.statespace import MessageType
        stats = collections.Counter()
        opts = AnalysisOptionSet(per_condition_timeout=tmo, report_all=True, stats=stats,
                                 max_uninteresting_iterations=10**9)
        if ppt:
            opts.per_path_timeout = ppt
        fn = getattr(mod, func)
        checkables = analyze_function(fn, opts)
        if not checkables:
            out.update(verdict="error", detail="no checkable conditions")
        else:
            msgs = run_checkables(checkables)
            states = [m.state for m in msgs]
            out["messages"] = [{"state": m.state.name, "message": m.message, "line": m.line} for m in msgs]
            bad = [m for m in msgs if m.state in (MessageType.POST_FAIL, MessageType.EXEC_ERR, MessageType.POST_ERR)]
            if bad:
                m = bad[0]
                out.update(verdict="cex", cex_message=m.message, cex_state=m.state.name)
                msg = m.message
                k = msg.find(") with crosshair.patch_to_return(")
                if k >= 0:
                    # CrossHair also chose return values for an unpatched nondeterministic function (e.g. time.time);
                    # the replay runs with the real function instead
                    out["cex_patches"] = msg[k + 7:]
                    msg = msg[:k + 1]
                mm = re.search(r"when calling (\w+)\((.*?)\)(?: \(which .*\))?$", msg, re.S)
                if mm:
                    out["cex_call"] = mm.group(2)
            elif any(s in (MessageType.SYNTAX_ERR, MessageType.IMPORT_ERR) for s in states):
                out.update(verdict="error", detail="; ".join(m.message for m in msgs))
            elif states and all(s == MessageType.CONFIRMED for s in states):
                out.update(verdict="confirmed")
            elif any(s == MessageType.PRE_UNSAT for s in states):
                out.update(verdict="pre_unsat")
            else:
                out.update(verdict="unknown")
        out["stats"] = {k: v for k, v in stats.items() if isinstance(v, (int, float))}
        rt = sys.modules.get("vlib.rt")
        if rt is not None:
            out["rt"] = rt.snapshot()
    except BaseException as e:  # noqa
        out.update(verdict="error", detail="%s: %s" % (type(e).__name__, e), tb=traceback.format_exc()[-2000:])
    out["secs"] = round(time.time() - t0, 2)
    sys.stdout.write("\n@@RESULT@@" + json.dumps(out) + "\n")


if __name__ == "__main__":
    main()
