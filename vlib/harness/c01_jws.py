"""C01 harnesses: JWS verification (compact, flattened/general JSON, RFC 7797) in the adversarial environment.

Symbolic: header members (presence, JSON type, value), structure (empty segments, number of signatures, where alg/kid sit),
key form (key / key set / callable), allow-list, and the VERDICT of every verification primitive.  Postcondition: the call
returns only if >= 1 primitive verification happened, each said "valid", each was asked about exactly the received
protected-header segment '.' payload segment with the key resolved for that signature and the algorithm its header names."""
from typing import Optional, Union, List
import binascii, json
from joserfc import jws
from joserfc.jwk import KeySet
from joserfc.errors import JoseError
from joserfc.rfc7797 import deserialize_compact as d7797_compact, deserialize_json as d7797_json
from vlib import ice, rt

JV = Union[None, bool, int, str, List[str]]
ALGS = ["HS256", "HS384", "none", "RS256", "zz", 7, None]
ALLOW = [None, ["HS256"], ["HS384", "none"], ["RS256", "HS256"], [], ["HS256", "HS384"]]
CRIT = [["typ"], ["zz"], [], "typ", ["typ", "alg"]]
HASHNAME = {"HS256": "sha256", "HS384": "sha384", "HS512": "sha512"}
RECOMMENDED = {"HS256", "RS256", "ES256"}
REGISTERED = {"none", "HS256", "HS384", "HS512", "RS256", "RS384", "RS512", "ES256", "ES384", "ES512", "PS256", "PS384", "PS512",
              "EdDSA", "ES256K"}
H, P, S = b"HDRSEG", b"PAYSEG", b"SIGSEG"
PAYLOAD = b"payload-octets"
DIGEST = {"HS256": 32, "HS384": 48, "HS512": 64}


def sigv(alg, tag=1):
    """received signature octets of the length the named MAC produces (a MAC of another length can never compare equal)"""
    return bytes((tag * 13 + i) % 256 for i in range(DIGEST.get(alg, 32) if isinstance(alg, str) else 32))


SIGV = sigv("HS256")


def allowed(alg, allow):
    if not isinstance(alg, str) or alg not in REGISTERED:
        return False
    return (alg in allow) if allow else (alg in RECOMMENDED)


def mk_header(has_alg, alg_i, has_kid, kid, has_typ, typ, has_crit, crit_i, has_unknown):
    h = {}
    if has_alg:
        h["alg"] = ALGS[alg_i]
    if has_kid:
        h["kid"] = kid
    if has_typ:
        h["typ"] = typ
    if has_crit:
        h["crit"] = CRIT[crit_i]
    if has_unknown:
        h["zzz"] = 1
    return h


_KA, _KB = ice.fake_key("oct32", kid="a"), ice.fake_key("oct48", kid="b")


def keys_for(keyform):
    """-> (key argument, resolver(header) -> expected Key or None)"""
    ka, kb = _KA, _KB
    if keyform == 0:
        return ka, (lambda hdr: ka)
    ks = KeySet([ka, kb])

    def resolve(hdr):
        kid = hdr.get("kid")
        for k in (ka, kb):
            if kid == k.kid:
                return k
        return None
    if keyform == 1:
        return ks, resolve
    return (lambda obj: ks), resolve


# ------------------------------------------------------------------ compact
def run_compact(hdr, hdr_bad, p_empty, s_empty, vr, keyform, allow_i, use7797=False, given_payload=None):
    env = ice.Env(True, [vr])
    if hdr_bad == 1:
        env.bind_b64(H, binascii.Error("Only base64 data is allowed"))
    else:
        env.bind_b64(H, b"HDRJSON")
    if hdr_bad == 2:
        env.bind_json(b"HDRJSON", json.JSONDecodeError("Expecting value", "x", 0))
    elif hdr_bad == 3:
        env.bind_json(b"HDRJSON", lambda: ["alg", "HS256"])
    elif hdr_bad == 4:
        env.bind_json(b"HDRJSON", lambda: "alg HS256")
    else:
        env.bind_json(b"HDRJSON", lambda: ice.jcopy(hdr))
    pseg = b"" if p_empty else P
    sseg = b"" if s_empty else S
    env.bind_b64(P, PAYLOAD)
    env.bind_b64(S, sigv(hdr.get("alg")))
    token = H + b"." + pseg + b"." + sseg
    karg, resolve = keys_for(keyform)
    with env.installed():
        try:
            if use7797:
                obj = d7797_compact(token, karg, given_payload, ALLOW[allow_i])
            else:
                obj = jws.deserialize_compact(token, karg, ALLOW[allow_i])
        except ice.HarnessError:
            raise
        except Exception as e:  # noqa
            return env, None, e, (pseg, sseg, resolve)
    return env, obj, None, (pseg, sseg, resolve)


def check_compact(env, obj, hdr, hdr_bad, allow_i, pseg, sseg, resolve, signed_payload_octets=None):
    """the statement's conditions for a RETURNED object"""
    if hdr_bad != 0:
        return False
    alg = hdr.get("alg")
    if not allowed(alg, ALLOW[allow_i]) or alg == "none":
        return False
    cmp_ = env.of("compare") + env.of("verify")
    macs = env.of("hmac")
    if len(cmp_) != 1 or not cmp_[0]["verdict"]:
        return False
    if alg not in HASHNAME:
        return False                     # only oct keys are supplied here: a non-HMAC alg cannot verify
    key = resolve(hdr)
    if key is None:
        return False
    want_msg = H + b"." + (pseg if signed_payload_octets is None else signed_payload_octets)
    want_sig = sigv(alg) if sseg else b""
    c = cmp_[0]
    mac = ice.mac_tag(HASHNAME[alg], key.raw_value, want_msg)
    if not ((c["a"] == want_sig and c["b"] == mac) or (c["b"] == want_sig and c["a"] == mac)):
        return False
    if len(macs) != 1:
        return False
    return True


def compact_alg_allow(has_alg: bool, alg_i: int, allow_i: int, p_empty: bool, s_empty: bool, vr: bool) -> bool:
    """
    pre: 0 <= alg_i < 7 and 0 <= allow_i < 5
    post: _
    """
    rt.tick()
    hdr = mk_header(has_alg, alg_i, False, None, False, None, False, 0, False)
    env, obj, exc, (pseg, sseg, resolve) = run_compact(hdr, 0, p_empty, s_empty, vr, 0, allow_i)
    if obj is None:
        return True
    if not check_compact(env, obj, hdr, 0, allow_i, pseg, sseg, resolve):
        return False
    return obj.payload == (PAYLOAD if pseg else b"") and obj.protected == hdr and obj.headers() == hdr


def compact_kid_key(has_kid: bool, kid: Union[str, int], keyform: int, alg_i: int, vr: bool) -> bool:
    """
    pre: 0 <= keyform <= 2 and 0 <= alg_i <= 1
    pre: not isinstance(kid, str) or len(kid) <= 1
    post: _
    """
    rt.tick()
    hdr = mk_header(True, alg_i, has_kid, kid, False, None, False, 0, False)
    env, obj, exc, (pseg, sseg, resolve) = run_compact(hdr, 0, False, False, vr, keyform, 5)
    if obj is None:
        return True
    if not check_compact(env, obj, hdr, 0, 5, pseg, sseg, resolve):
        return False
    return obj.payload == PAYLOAD and obj.protected == hdr


def compact_kid_one(has_kid: bool, kid: Union[str, int], via_callable: bool, vr: bool) -> bool:
    """
    pre: not isinstance(kid, str) or len(kid) <= 1
    post: _
    """
    rt.tick()
    hdr = mk_header(True, 0, has_kid, kid, False, None, False, 0, False)
    env = ice.Env(True, [vr])
    env.bind_b64(H, b"HDRJSON")
    env.bind_json(b"HDRJSON", lambda: ice.jcopy(hdr))
    env.bind_b64(P, PAYLOAD)
    env.bind_b64(S, sigv("HS256"))
    ks = KeySet([_KA])
    with env.installed():
        try:
            obj = jws.deserialize_compact(H + b"." + P + b"." + S, (lambda o: ks) if via_callable else ks, ["HS256"])
        except ice.HarnessError:
            raise
        except Exception:  # noqa
            return True
    # accepted: only without kid (single-key shortcut) or with exactly that key's kid, and the verdict was "valid"
    c = env.of("compare")
    return (not has_kid or kid == "a") and len(c) == 1 and c[0]["verdict"]


def compact_kid_key_witness(has_kid: bool, kid: Union[str, int], keyform: int, alg_i: int, vr: bool) -> bool:
    """
    pre: 0 <= keyform <= 2 and 0 <= alg_i <= 1
    pre: not isinstance(kid, str) or len(kid) <= 1
    post: _
    """
    hdr = mk_header(True, alg_i, has_kid, kid, False, None, False, 0, False)
    env, obj, exc, _ = run_compact(hdr, 0, False, False, vr, keyform, 5)
    return not (obj is not None and keyform == 1 and kid == "b")


def compact_header_members(has_typ: bool, typ: JV, has_crit: bool, crit_i: int, has_unknown: bool, vr: bool) -> bool:
    """
    pre: 0 <= crit_i < 5
    pre: not isinstance(typ, str) or len(typ) <= 1
    pre: not isinstance(typ, list) or (len(typ) <= 1 and all(len(x) <= 1 for x in typ))
    post: _
    """
    rt.tick()
    hdr = mk_header(True, 0, False, None, has_typ, typ, has_crit, crit_i, has_unknown)
    env, obj, exc, (pseg, sseg, resolve) = run_compact(hdr, 0, False, False, vr, 0, 0)
    if obj is None:
        return True
    if not check_compact(env, obj, hdr, 0, 0, pseg, sseg, resolve):
        return False
    return obj.payload == PAYLOAD and obj.protected == hdr


def compact_header_decoding(hdr_bad: int, has_kid: bool, kid: JV, vr: bool) -> bool:
    """
    pre: 0 <= hdr_bad <= 4
    pre: not isinstance(kid, str) or len(kid) <= 1
    pre: not isinstance(kid, list) or (len(kid) <= 1 and all(len(x) <= 1 for x in kid))
    post: _
    """
    rt.tick()
    hdr = mk_header(True, 0, has_kid, kid, False, None, False, 0, False)
    env, obj, exc, (pseg, sseg, resolve) = run_compact(hdr, hdr_bad, False, False, vr, 0, 0)
    if obj is None:
        return True
    if not check_compact(env, obj, hdr, hdr_bad, 0, pseg, sseg, resolve):
        return False
    return obj.payload == PAYLOAD and obj.protected == hdr


def compact_reject_witness(hdr_bad: int, vr: bool) -> bool:
    """
    pre: 0 <= hdr_bad <= 4
    post: _
    """
    hdr = mk_header(True, 0, False, None, False, None, False, 0, False)
    env, obj, exc, _ = run_compact(hdr, hdr_bad, False, False, vr, 0, 0)
    return not (exc is not None and hdr_bad == 0 and len(env.of("compare")) == 1)


# ------------------------------------------------------------------ asymmetric families (fake native keys)
ASYM = ["RS256", "RS384", "RS512", "PS256", "PS384", "PS512", "ES256", "ES384", "ES512", "ES256K", "EdDSA"]
AKEYS = ["RSA", "P-256", "P-384", "P-521", "secp256k1", "Ed25519", "Ed448", "X25519", "oct32"]
TABLE = {"RS256": ("RSA", (("PKCS1v15",), "sha256")), "RS384": ("RSA", (("PKCS1v15",), "sha384")), "RS512": ("RSA", (("PKCS1v15",), "sha512")),
         "PS256": ("RSA", (("PSS", "MGF1", "sha256", 32), "sha256")), "PS384": ("RSA", (("PSS", "MGF1", "sha384", 48), "sha384")),
         "PS512": ("RSA", (("PSS", "MGF1", "sha512", 64), "sha512")),
         "ES256": ("EC", ("ECDSA", "sha256")), "ES384": ("EC", ("ECDSA", "sha384")), "ES512": ("EC", ("ECDSA", "sha512")),
         "ES256K": ("EC", ("ECDSA", "sha256")), "EdDSA": ("OKP", ())}
ES_CURVE = {"ES256": ("P-256", 32), "ES384": ("P-384", 48), "ES512": ("P-521", 66), "ES256K": ("secp256k1", 32)}
_AKEYS = [ice.fake_key(k, kid=None) for k in AKEYS]


def asym_sig(alg, sig_i):
    """decoded signature octets offered: 0 well-formed length, 1 one octet short, 2 two octets longer, 3 empty, 4 one longer"""
    L = 2 * ES_CURVE[alg][1] if alg in ES_CURVE else (256 if alg[:2] in ("RS", "PS") else 64)      # the fake RSA keys are 2048 bit
    n = [L, L - 1, L + 2, 0, L + 1][sig_i]
    return bytes((7 * i + 3) % 251 for i in range(n))


def run_asym(alg_i, key_i, sig_i, vr):
    alg = ASYM[alg_i]
    env = ice.Env(True, [vr])
    hdr = {"alg": alg}
    env.bind_b64(H, b"HDRJSON")
    env.bind_json(b"HDRJSON", lambda: ice.jcopy(hdr))
    env.bind_b64(P, PAYLOAD)
    sig = asym_sig(alg, sig_i)
    env.bind_b64(S, sig)
    key = _AKEYS[key_i]
    with env.installed():
        try:
            obj = jws.deserialize_compact(H + b"." + P + b"." + S, key, [alg])
        except ice.HarnessError:
            raise
        except Exception as e:  # noqa
            return env, None, e, sig, key
    return env, obj, None, sig, key


def compact_asym(alg_i: int, key_i: int, sig_i: int, vr: bool) -> bool:
    """
    pre: 0 <= alg_i < 11 and 0 <= key_i < 9 and 0 <= sig_i < 5
    post: _
    """
    rt.tick()
    env, obj, exc, sig, key = run_asym(alg_i, key_i, sig_i, vr)
    if obj is None:
        return True
    alg = ASYM[alg_i]
    kty, params = TABLE[alg]
    vs = env.of("verify")
    if len(vs) != 1 or not vs[0]["verdict"] or env.of("compare"):
        return False
    v = vs[0]
    kind = AKEYS[key_i]
    if kty == "RSA":
        # RFC 8017 8.1.2 / 8.2.2 step 1: a signature that is not exactly as long as the modulus is invalid (truncation clause)
        ok = kind == "RSA" and v["family"] == "RSA" and v["params"] == params and v["sig"] == sig and len(sig) == 256
    elif kty == "EC":
        crv, L = ES_CURVE[alg]
        from cryptography.hazmat.primitives.asymmetric.utils import encode_dss_signature
        ok = kind == crv and v["family"] == "EC" and v["params"] == params and len(sig) == 2 * L and \
            v["sig"] == encode_dss_signature(int.from_bytes(sig[:L], "big"), int.from_bytes(sig[L:], "big"))
    else:
        ok = kind in ("Ed25519", "Ed448") and v["family"] == kind and v["sig"] == sig
    return ok and v["key"] == kind and v["msg"] == H + b"." + P and obj.payload == PAYLOAD


def compact_asym_witness(alg_i: int, key_i: int, sig_i: int, vr: bool) -> bool:
    """
    pre: 0 <= alg_i < 11 and 0 <= key_i < 9 and 0 <= sig_i < 5
    post: _
    """
    env, obj, exc, sig, key = run_asym(alg_i, key_i, sig_i, vr)
    return not (obj is not None and ASYM[alg_i] == "ES512")


# ------------------------------------------------------------------ JSON serializations
def run_json(n, flattened, prot, alg_prot, kids, vrs, keyform, allow_i, with_payload=True, sigs_present=True, use7797=False, b64=None):
    """n signatures; signature i has a protected header iff prot[i]; its alg sits in the protected header iff alg_prot[i]
    (else in the unprotected one); kids[i] in {None,'a','b','c'} goes to the unprotected header."""
    env = ice.Env(True, list(vrs))
    sigs = []
    hdrs = []
    for i in range(n):
        d = {"signature": "SIG%d" % i}
        env.bind_b64(b"SIG%d" % i, sigv("HS256" if i == 0 else "HS384", 2 + i))
        p, u = {}, {}
        (p if (prot[i] and alg_prot[i]) else u)["alg"] = "HS256" if i == 0 else "HS384"
        if kids[i] is not None:
            u["kid"] = kids[i]
        if b64 is not None and i == 0:
            tgt = p if b64[0] == "p" else u
            tgt["b64"] = b64[1]
            if b64[2]:
                tgt["crit"] = ["b64"]
        if prot[i]:
            d["protected"] = "PROT%d" % i
            env.bind_b64(b"PROT%d" % i, b"PJSON%d" % i)
            env.bind_json(b"PJSON%d" % i, (lambda pp: (lambda: ice.jcopy(pp)))(p))
        if u:
            d["header"] = u
        sigs.append(d)
        hdrs.append((p if prot[i] else None, u))
    env.bind_b64(P, PAYLOAD)
    if flattened:
        value = dict(sigs[0])
    else:
        value = {"signatures": sigs} if sigs_present else {}
    if with_payload:
        value["payload"] = P.decode()
    karg, resolve = keys_for(keyform)
    with env.installed():
        try:
            if use7797:
                obj = d7797_json(value, karg, ALLOW[allow_i])
            else:
                obj = jws.deserialize_json(value, karg, ALLOW[allow_i])
        except ice.HarnessError:
            raise
        except Exception as e:  # noqa
            return env, None, e, hdrs, resolve
    return env, obj, None, hdrs, resolve


def check_json(env, n, hdrs, allow_i, resolve, prot, payload_seg=P):
    cmp_ = env.of("compare")
    if n < 1 or len(cmp_) != n:
        return False
    for i in range(n):
        p, u = hdrs[i]
        merged = dict(p or {})
        merged.update(u)
        alg = merged.get("alg")
        if not allowed(alg, ALLOW[allow_i]) or alg not in HASHNAME:
            return False
        key = resolve(merged)
        if key is None:
            return False
        c = cmp_[i]
        if not c["verdict"]:
            return False
        seg = (b"PROT%d" % i) if prot[i] else b""
        mac = ice.mac_tag(HASHNAME[alg], key.raw_value, seg + b"." + payload_seg)
        sig = sigv("HS256" if i == 0 else "HS384", 2 + i)
        if not ((c["a"] == sig and c["b"] == mac) or (c["b"] == sig and c["a"] == mac)):
            return False
    return True




def _general_json_both(n, p0, p1, ap, k0, k1, v0, v1, keyform):
    rt.tick()
    KID = [None, "a", "b", "c"]
    ap0 = ap1 = ap
    env, obj, exc, hdrs, resolve = run_json(n, False, [p0, p1], [ap0, ap1], [KID[k0], KID[k1]], [v0, v1], keyform, 5)
    if obj is None:
        return True
    if not check_json(env, n, hdrs, 5, resolve, [p0, p1]):
        return False
    if obj.payload != PAYLOAD or len(obj.members) != n:
        return False
    for i in range(n):
        if obj.members[i].protected != hdrs[i][0] and not (obj.members[i].protected is None and not hdrs[i][0]):
            return False
    return True


def general_json_kf0(n: int, p0: bool, p1: bool, ap: bool, k0: int, k1: int, v0: bool, v1: bool) -> bool:
    """
    pre: 0 <= n <= 2 and 0 <= k0 <= 3 and 0 <= k1 <= 3
    post: _
    """
    return _general_json_both(n, p0, p1, ap, k0, k1, v0, v1, 0)


def general_json_kf1(n: int, p0: bool, p1: bool, ap: bool, k0: int, k1: int, v0: bool, v1: bool) -> bool:
    """
    pre: 0 <= n <= 2 and 0 <= k0 <= 3 and 0 <= k1 <= 3
    post: _
    """
    return _general_json_both(n, p0, p1, ap, k0, k1, v0, v1, 1)


def general_json_kf2(n: int, p0: bool, p1: bool, ap: bool, k0: int, k1: int, v0: bool, v1: bool) -> bool:
    """
    pre: 0 <= n <= 2 and 0 <= k0 <= 3 and 0 <= k1 <= 3
    post: _
    """
    return _general_json_both(n, p0, p1, ap, k0, k1, v0, v1, 2)


def general_json_witness(n: int, p0: bool, p1: bool, ap: bool, k0: int, k1: int, v0: bool, v1: bool, keyform: int) -> bool:
    """
    pre: 0 <= n <= 2 and 0 <= k0 <= 3 and 0 <= k1 <= 3 and 0 <= keyform <= 2
    post: _
    """
    KID = [None, "a", "b", "c"]
    env, obj, exc, hdrs, resolve = run_json(n, False, [p0, p1], [ap, ap], [KID[k0], KID[k1]], [v0, v1], keyform, 5)
    return not (obj is not None and n == 2 and k0 == 1 and k1 == 2)


def general_json_structure(n: int, with_payload: bool, sigs_present: bool, v0: bool) -> bool:
    """
    pre: 0 <= n <= 1
    post: _
    """
    env, obj, exc, hdrs, resolve = run_json(n, False, [True, True], [True, True], [None, None], [v0, v0], 0, 0,
                                            with_payload, sigs_present)
    if obj is None:
        return True
    return with_payload and sigs_present and check_json(env, n, hdrs, 0, resolve, [True, True])


def flattened_json(p0: bool, ap0: bool, k0: int, v0: bool, keyform: int, allow_i: int) -> bool:
    """
    pre: 0 <= k0 <= 3 and 0 <= keyform <= 2 and 0 <= allow_i <= 5
    post: _
    """
    rt.tick()
    KID = [None, "a", "b", "c"]
    env, obj, exc, hdrs, resolve = run_json(1, True, [p0], [ap0], [KID[k0]], [v0], keyform, allow_i)
    if obj is None:
        return True
    if not check_json(env, 1, hdrs, allow_i, resolve, [p0]):
        return False
    return obj.payload == PAYLOAD


# ------------------------------------------------------------------ RFC 7797 (unencoded payload)
B64V = [True, False, 0, "false", None]


def rfc7797_compact(has_b64: bool, b64_i: int, has_crit: bool, crit_lists_b64: bool, p_empty: bool, given: int, vr: bool) -> bool:
    """
    pre: 0 <= b64_i < 5 and 0 <= given <= 2
    post: _
    """
    rt.tick()
    hdr = {"alg": "HS256"}
    if has_b64:
        hdr["b64"] = B64V[b64_i]
    if has_crit:
        hdr["crit"] = ["b64"] if crit_lists_b64 else ["alg"]
    given_payload = [None, b"", b"detached-octets"][given]
    env, obj, exc, (pseg, sseg, resolve) = run_compact(hdr, 0, p_empty, False, vr, 0, 0, True, given_payload)
    if obj is None:
        return True
    unencoded = has_b64 and B64V[b64_i] is False
    if has_b64 and not (has_crit and crit_lists_b64):
        return False                                      # b64 must be accompanied by a crit that lists it
    if has_b64 and not isinstance(B64V[b64_i], bool):
        return False
    if not unencoded:
        return check_compact(env, obj, hdr, 0, 0, pseg, sseg, resolve) and obj.payload == (PAYLOAD if pseg else b"")
    signed = given_payload if given_payload else pseg
    return check_compact(env, obj, hdr, 0, 0, pseg, sseg, resolve, signed_payload_octets=signed) and obj.payload == signed


def rfc7797_compact_witness(has_b64: bool, b64_i: int, has_crit: bool, crit_lists_b64: bool, p_empty: bool, given: int, vr: bool) -> bool:
    """
    pre: 0 <= b64_i < 5 and 0 <= given <= 2
    post: _
    """
    hdr = {"alg": "HS256"}
    if has_b64:
        hdr["b64"] = B64V[b64_i]
    if has_crit:
        hdr["crit"] = ["b64"] if crit_lists_b64 else ["alg"]
    env, obj, exc, _ = run_compact(hdr, 0, p_empty, False, vr, 0, 0, True, [None, b"", b"detached-octets"][given])
    return not (obj is not None and has_b64 and B64V[b64_i] is False and given == 2)


def rfc7797_json(where: int, b64_i: int, with_crit: bool, p0: bool, v0: bool, dup: bool) -> bool:
    """
    pre: 0 <= where <= 2 and 0 <= b64_i <= 1
    pre: where != 2 or not KNOWN_UNPROTECTED_B64
    post: _
    """
    rt.tick()
    return _rfc7797_json(where, b64_i, with_crit, p0, v0)


KNOWN_UNPROTECTED_B64 = True   # known finding c01-unprotected-b64 (region where == 2) is checked by its own condition below


def _rfc7797_json(where, b64_i, with_crit, p0, v0):
    b64 = None if where == 0 else (("p" if where == 1 else "u"), B64V[b64_i], with_crit)
    prot = p0 or where == 1
    env, obj, exc, hdrs, resolve = run_json(1, True, [prot], [True], [None], [v0], 0, 0, use7797=True, b64=b64)
    if obj is None:
        return True
    unencoded = where != 0 and B64V[b64_i] is False
    if where != 0 and not with_crit:
        return False
    if where == 2 and unencoded:
        return False          # honoured although not integrity protected
    if unencoded:
        return check_json(env, 1, hdrs, 0, resolve, [prot]) and obj.payload == P
    return check_json(env, 1, hdrs, 0, resolve, [prot]) and obj.payload == PAYLOAD


def rfc7797_json_unprotected(b64_i: int, with_crit: bool, p0: bool, v0: bool) -> bool:
    """
    pre: 0 <= b64_i <= 1
    post: _
    """
    return _rfc7797_json(2, b64_i, with_crit, p0, v0)


# ------------------------------------------------------------------ replay against the real code
# ------------------------------------------------------------------ two-step API: extract several tokens, validate one of them
H2, P2, S2 = b"HDRSEG2", b"PAYSEG2", b"SIGSEG2"


def twostep_compact(which: int, order: bool, vr: bool) -> bool:
    """
    pre: 0 <= which <= 1
    post: _
    """
    rt.tick()
    env = ice.Env(True, [vr, vr])
    env.bind_b64(H, b"HDRJSON")
    env.bind_json(b"HDRJSON", lambda: {"alg": "HS256"})
    env.bind_b64(H2, b"HDRJSON2")
    env.bind_json(b"HDRJSON2", lambda: {"alg": "HS256", "typ": "x"})
    env.bind_b64(P, PAYLOAD)
    env.bind_b64(P2, b"other-payload")
    env.bind_b64(S, sigv("HS256"))
    env.bind_b64(S2, sigv("HS256", 2))
    toks = [H + b"." + P + b"." + S, H2 + b"." + P2 + b"." + S2]
    with env.installed():
        objs = [None, None]
        try:
            for i in ((0, 1) if order else (1, 0)):
                objs[i] = jws.extract_compact(toks[i])
            ok = jws.validate_compact(objs[which], _KA, ["HS256"])
        except ice.HarnessError:
            raise
        except Exception:  # noqa
            return False                         # both tokens are well formed
    cmp_ = env.of("compare")
    if len(cmp_) != 1 or ok != vr:
        return False
    want_sig = sigv("HS256", 1 + which)
    mac = ice.mac_tag("sha256", _KA.raw_value, [H + b"." + P, H2 + b"." + P2][which])
    c = cmp_[0]
    if not ((c["a"] == want_sig and c["b"] == mac) or (c["b"] == want_sig and c["a"] == mac)):
        return False                             # the verdict is about another token's octets
    return objs[which].payload == [PAYLOAD, b"other-payload"][which] and objs[which].protected == [{"alg": "HS256"}, {"alg": "HS256", "typ": "x"}][which]


def history_two_calls(form: int, same_sig: bool, v0: bool, v1: bool) -> bool:
    """
    pre: 0 <= form <= 4
    post: _
    """
    # One process, two calls: token 1, then a token with the SAME protected segment (and, if same_sig, the same signature segment)
    # over another payload.  The second call must be decided by a comparison over ITS OWN signing input: whatever the first call
    # left behind (memo, cache, shared object) must not answer for it.  form: 0 compact, 1 flattened, 2 general, 3/4 RFC 7797 json/compact
    rt.tick()
    env = ice.Env(True, [v0, v1])
    env.bind_b64(H, b"HDRJSON")
    env.bind_json(b"HDRJSON", lambda: {"alg": "HS256"})
    env.bind_b64(P, PAYLOAD)
    env.bind_b64(P2, b"other-payload")
    env.bind_b64(S, sigv("HS256"))
    env.bind_b64(S2, sigv("HS256", 2))
    s2 = S if same_sig else S2

    def call(pseg, sseg):
        if form == 0:
            return jws.deserialize_compact(H + b"." + pseg + b"." + sseg, _KA, ["HS256"])
        if form == 4:
            return d7797_compact(H + b"." + pseg + b"." + sseg, _KA, None, ["HS256"])
        if form == 2:
            value = {"payload": pseg.decode(), "signatures": [{"protected": H.decode(), "signature": sseg.decode()}]}
        else:
            value = {"payload": pseg.decode(), "protected": H.decode(), "signature": sseg.decode()}
        return (d7797_json if form == 3 else jws.deserialize_json)(value, _KA, ["HS256"])
    with env.installed():
        objs = []
        for pseg, sseg in ((P, S), (P2, s2)):
            try:
                objs.append(call(pseg, sseg))
            except ice.HarnessError:
                raise
            except Exception:  # noqa
                objs.append(None)
    cmp_ = env.of("compare")
    if len(cmp_) != 2:
        return False                             # each call consults the MAC comparison exactly once
    for i, (pseg, sseg, vr) in enumerate(((P, S, v0), (P2, s2, v1))):
        c = cmp_[i]
        mac = ice.mac_tag("sha256", _KA.raw_value, H + b"." + pseg)
        sig = sigv("HS256", 1 if sseg == S else 2)
        if not ((c["a"] == sig and c["b"] == mac) or (c["b"] == sig and c["a"] == mac)):
            return False
        if (objs[i] is not None) != vr:
            return False
        if objs[i] is not None and objs[i].payload != [PAYLOAD, b"other-payload"][i]:
            return False
    return True


def replay_twostep(which, order):
    from vlib import refjose as R
    from joserfc.jwk import OctKey
    jwks = [dict(R.test_key("oct32")), dict(R.test_key("oct32"), k=R.b64e(b"another-32-octet-secret-for-hs256"))]
    toks = [R.compact_sign({"alg": "HS256"}, b"payload-%d" % i, jwks[i]) for i in range(2)]
    objs = [None, None]
    for i in ((0, 1) if order else (1, 0)):
        objs[i] = jws.extract_compact(toks[i].encode())
    keys = [OctKey.import_key(j) for j in jwks]
    res = [jws.validate_compact(objs[which], keys[j], ["HS256"]) for j in range(2)]
    want = [j == which for j in range(2)]
    bad = res != want or objs[which].payload != b"payload-%d" % which
    return {"violated": bad, "key": "c01-twostep", "detail": "extract_compact of two tokens (%s), then validate_compact(token %d): verdicts under key0/key1 = %r "
            "(an independent verifier says %r), payload %r" % ("0 then 1" if order else "1 then 0", which, res, want, objs[which].payload)}


def _real_keys(keyform):
    from joserfc.jwk import OctKey
    from vlib import refjose as R
    ja, jb = dict(R.test_key("oct32"), kid="a"), dict(R.test_key("oct48"), kid="b")
    ka, kb = OctKey.import_key(ja), OctKey.import_key(jb)

    def resolve(hdr):
        if keyform == 0:
            return ja
        return {"a": ja, "b": jb}.get(hdr.get("kid")) if isinstance(hdr.get("kid"), str) else None
    if keyform == 0:
        return ka, resolve
    if keyform >= 3:
        one = KeySet([ka])
        return (one if keyform == 3 else (lambda obj: one)), (lambda hdr: ja if hdr.get("kid") in (None, "a") and not ("kid" in hdr and hdr["kid"] != "a") else None)
    ks = KeySet([ka, kb])
    return (ks if keyform == 1 else (lambda obj: ks)), resolve


def _real_sig(alg, jwk, si, good):
    from vlib import refjose as R
    try:
        sig = R.jws_sign(alg if isinstance(alg, str) and alg in HASHNAME else "HS256", jwk, si)
    except Exception:  # noqa
        sig = b"\x00" * 32
    return sig if good else bytes([sig[0] ^ 1]) + sig[1:]


def _judge(label, accepted, obj_payload, ok_ref, want_payload, extra=""):
    if accepted and not ok_ref:
        return {"violated": True, "key": "c01-" + label, "detail": "accepted although an independent RFC 7515 verifier rejects: " + extra}
    if accepted and obj_payload != want_payload:
        return {"violated": True, "key": "c01-" + label + "-payload", "detail": "returned payload %r is not the signed one %r %s" % (obj_payload, want_payload, extra)}
    return {"violated": False, "detail": "real code %s %s" % ("accepted a valid token" if accepted else "rejected", extra)}


REAL_KEY = {"RSA": "RSA2048", "oct32": "oct32"}


def replay_asym(alg_i, key_i, sig_i, vr):
    """real keys; a valid signature by the offered key (made with the algorithm that key can do), then the length edit"""
    from vlib import refjose as R
    from joserfc.jwk import JWKRegistry
    alg, kind = ASYM[alg_i], AKEYS[key_i]
    jwk = R.test_key(REAL_KEY.get(kind, kind))
    hseg = R.b64e(json.dumps({"alg": alg}, separators=(",", ":")).encode()).encode()
    pseg = R.b64e(PAYLOAD).encode()
    si = hseg + b"." + pseg
    own = {"RSA": alg if alg[:2] in ("RS", "PS") else "RS256", "P-256": "ES256", "P-384": "ES384", "P-521": "ES512", "secp256k1": "ES256K",
           "Ed25519": "EdDSA", "Ed448": "EdDSA", "oct32": "HS256"}.get(kind)
    if kind in ES_CURVE_BY_CRV and alg in ES_CURVE:
        # sign with the header's hash on the offered key's curve (what a wrong-curve attacker would do)
        from cryptography.hazmat.primitives.asymmetric import ec, utils
        der = R.priv_native(jwk).sign(si, ec.ECDSA(R.HASH[R.ES[alg][1]]()))
        r, s_ = utils.decode_dss_signature(der)
        L = R.CURVES[kind][1]
        sig = r.to_bytes(L, "big") + s_.to_bytes(L, "big")
        half = L
    elif own is None:
        sig, half = b"\x01" * 64, 32
    else:
        sig = R.jws_sign(own, jwk, si)
        half = len(sig) // 2
    if not vr:
        sig = bytes([sig[0] ^ 1]) + sig[1:]
    cands = [(si, [sig, sig[:-1], b"\x00" + sig[:half] + b"\x00" + sig[half:], b"", sig + b"\x00"][sig_i])]
    if sig_i in (1, 3) and kind == "RSA" and own is not None and vr:
        # the model says: a signature SHORTER than the modulus reached the primitive and was judged valid.  The concrete way to get
        # that verdict from pyca: a valid signature whose first octet is zero, with that octet removed (same integer).  PSS is
        # randomised (re-sign); PKCS1v15 is deterministic (vary a header member)
        for i in range(4000):
            si2 = si if own[:2] == "PS" else R.b64e(json.dumps({"alg": alg, "kid": str(i)}, separators=(",", ":")).encode()).encode() + b"." + pseg
            s2 = R.jws_sign(own, jwk, si2)
            if s2[0] == 0:
                cands.append((si2, s2[1:]))
                break
    last = None
    for sinput, sg in cands:
        token = sinput + b"." + R.b64e(sg).encode()
        try:
            obj = jws.deserialize_compact(token, JWKRegistry.import_key(R.public_jwk(jwk)), [alg])
        except Exception as e:  # noqa
            last = {"violated": False, "detail": "real code rejected: %s" % type(e).__name__}
            continue
        ok, h2, p2 = R.compact_verify(token, R.public_jwk(jwk))
        last = _judge("asym", True, obj.payload, ok, p2, "alg=%s key=%s signature of %d octets token=%r" % (alg, kind, len(sg), token[:80]))
        if last["violated"]:
            return last
    return last


ES_CURVE_BY_CRV = {"P-256", "P-384", "P-521", "secp256k1"}


def replay_history():
    """CrossHair saw the verification code keep state between executions.  Scripted concrete histories on the real code: a genuine
    token is verified first (a legitimate call), then tokens that splice its protected header and signature onto another payload, or
    present it under another key, or flip a signature octet; and the same forged tokens before the genuine one.  Whatever an
    independent RFC 7515 verifier rejects must be rejected at every point of every history."""
    import warnings
    warnings.simplefilter("ignore")
    from vlib import refjose as R
    from joserfc.jwk import JWKRegistry
    from joserfc.rfc7797 import deserialize_json as d7797_json_, deserialize_compact as d7797_compact_
    cases = [("HS256", R.test_key("oct32"), dict(R.test_key("oct32"), k=R.b64e(b"another-32-octet-secret-for-hs256"))),
             ("RS256", R.test_key("RSA2048"), None), ("ES256", R.test_key("P-256"), None)]
    tried = 0
    for alg, jwk, other in cases:
        try:
            key = JWKRegistry.import_key(jwk)
            okey = JWKRegistry.import_key(other) if other else None
        except Exception:  # noqa
            continue
        pr = R.b64e(json.dumps({"alg": alg}, separators=(",", ":")).encode())
        p1, p2 = R.b64e(b"genuine payload"), R.b64e(b"forged payload")
        sig = R.jws_sign(alg, jwk, pr.encode() + b"." + p1.encode())
        s1 = R.b64e(sig)
        sbad = R.b64e(bytes([sig[0] ^ 1]) + sig[1:])
        genuine = [("compact", lambda: jws.deserialize_compact("%s.%s.%s" % (pr, p1, s1), key, [alg])),
                   ("flattened", lambda: jws.deserialize_json({"protected": pr, "payload": p1, "signature": s1}, key, [alg])),
                   ("general", lambda: jws.deserialize_json({"payload": p1, "signatures": [{"protected": pr, "signature": s1}]}, key, [alg])),
                   ("7797-json", lambda: d7797_json_({"protected": pr, "payload": p1, "signature": s1}, key, [alg])),
                   ("7797-compact", lambda: d7797_compact_(("%s.%s.%s" % (pr, p1, s1)).encode(), key, None, [alg]))]
        forged = []
        for pay, sg, k, why in [(p2, s1, key, "signature spliced onto another payload"), (p1, sbad, key, "one signature bit flipped"),
                                (p1, s1, okey, "verified under another key")]:
            if k is None:
                continue
            forged += [("compact: " + why, lambda pay=pay, sg=sg, k=k: jws.deserialize_compact("%s.%s.%s" % (pr, pay, sg), k, [alg])),
                       ("flattened: " + why, lambda pay=pay, sg=sg, k=k: jws.deserialize_json({"protected": pr, "payload": pay, "signature": sg}, k, [alg])),
                       ("general: " + why, lambda pay=pay, sg=sg, k=k: jws.deserialize_json({"payload": pay, "signatures": [{"protected": pr, "signature": sg}]}, k, [alg])),
                       ("7797-json: " + why, lambda pay=pay, sg=sg, k=k: d7797_json_({"protected": pr, "payload": pay, "signature": sg}, k, [alg])),
                       ("7797-compact: " + why, lambda pay=pay, sg=sg, k=k: d7797_compact_(("%s.%s.%s" % (pr, pay, sg)).encode(), k, None, [alg]))]
        # the reference verifier's verdicts: the genuine token verifies, none of the forged ones does
        si1 = pr.encode() + b"." + p1.encode()
        if not R.jws_verify(alg, jwk, si1, sig) or R.jws_verify(alg, jwk, pr.encode() + b"." + p2.encode(), sig) \
                or R.jws_verify(alg, jwk, si1, R.b64d(sbad)) or (other and R.jws_verify(alg, other, si1, sig)):
            return {"violated": None, "detail": "reference verifier disagrees with the script's own labels"}
        for order in ("forged-first", "genuine-first", "interleaved"):
            seq = {"forged-first": forged + genuine + forged, "genuine-first": genuine + forged,
                   "interleaved": [x for g in genuine for x in [g] + forged]}[order]
            done = []
            for label, f in seq:
                tried += 1
                is_forged = ": " in label
                try:
                    obj = f()
                except Exception as e:  # noqa
                    if not is_forged and not isinstance(e, TypeError):
                        done.append(label + " -> " + type(e).__name__)
                    continue
                done.append(label + " -> returned")
                if is_forged:
                    return {"violated": True, "key": "c01-history", "detail": "%s, history %s: after %r the call %r RETURNED payload %r although an independent "
                            "RFC 7515 verifier rejects it" % (alg, order, done[:-1][-6:], label, obj.payload)}
                if obj.payload != b"genuine payload":
                    return {"violated": True, "key": "c01-history-payload", "detail": "%s, history %s: %r returned payload %r" % (alg, order, label, obj.payload)}
    return {"violated": None, "detail": "nondeterminism seen by CrossHair but none of %d scripted calls (genuine/forged histories, 3 algorithms, "
            "5 entry points) returned a forged token" % tried}


def replay(func, call):
    if call == "@nondeterministic":
        return replay_history()
    import warnings
    warnings.simplefilter("ignore")
    from vlib import refjose as R
    args = eval("(" + call + ",)")
    if func == "twostep_compact":
        return replay_twostep(args[0], args[1])
    if func == "history_two_calls":
        return replay_history()
    if func in ("compact_asym", "compact_asym_witness"):
        return replay_asym(*args)
    if func.startswith("compact_"):
        keyform, allow_i, p_empty, s_empty, hdr_bad = 0, 0, False, False, 0
        if func == "compact_header_members":
            has_typ, typ, has_crit, crit_i, has_unknown, vr = args
            hdr = mk_header(True, 0, False, None, has_typ, typ, has_crit, crit_i, has_unknown)
        elif func == "compact_header_decoding":
            hdr_bad, has_kid, kid, vr = args
            hdr = mk_header(True, 0, has_kid, kid, False, None, False, 0, False)
        elif func == "compact_alg_allow":
            has_alg, alg_i, allow_i, p_empty, s_empty, vr = args
            hdr = mk_header(has_alg, alg_i, False, None, False, None, False, 0, False)
        elif func == "compact_kid_one":
            has_kid, kid, via_callable, vr = args
            hdr = mk_header(True, 0, has_kid, kid, False, None, False, 0, False)
            keyform, allow_i = 3 + int(via_callable), 1
        elif func == "compact_reject_witness":
            hdr_bad, vr = args
            hdr = mk_header(True, 0, False, None, False, None, False, 0, False)
        else:
            has_kid, kid, keyform, alg_i, vr = args
            allow_i = 5
            hdr = mk_header(True, alg_i, has_kid, kid, False, None, False, 0, False)
        text = json.dumps(hdr, separators=(",", ":")).encode()
        if hdr_bad == 2:
            text = b"{not json"
        elif hdr_bad == 3:
            text = b'["alg","HS256"]'
        elif hdr_bad == 4:
            text = b'"alg HS256"'
        hseg = R.b64e(text).encode() if hdr_bad != 1 else b"!!!!"
        pseg = b"" if p_empty else R.b64e(PAYLOAD).encode()
        karg, resolve = _real_keys(keyform)
        jwk = resolve(hdr) or R.test_key("oct32")
        sig = _real_sig(hdr.get("alg"), jwk, hseg + b"." + pseg, vr)
        sseg = b"" if s_empty else R.b64e(sig).encode()
        token = hseg + b"." + pseg + b"." + sseg
        try:
            obj = jws.deserialize_compact(token, karg, ALLOW[allow_i])
        except Exception as e:  # noqa
            return {"violated": False, "detail": "real code rejected: %s" % type(e).__name__}
        ok, h2, p2 = R.compact_verify(token, resolve(hdr)) if resolve(hdr) else (False, None, None)
        ok = ok and allowed(hdr.get("alg"), ALLOW[allow_i]) and hdr.get("alg") != "none"
        return _judge("compact", True, obj.payload, ok, p2, "token=%r" % token)
    if func == "compact_asym":
        return replay_asym(*args)
    if func in ("general_json_kf0", "general_json_kf1", "general_json_kf2"):
        args = args + (int(func[-1]),)
        func = "general_json_both"
    if func in ("general_json_both", "general_json_structure", "flattened_json", "general_json_witness"):
        if func == "flattened_json":
            p0, ap0, k0, v0, keyform, allow_i = args
            n, flat, prot, aprot, ks, vrs, with_payload, sigs_present = 1, True, [p0], [ap0], [k0], [v0], True, True
        elif func == "general_json_structure":
            n, with_payload, sigs_present, v0 = args
            flat, prot, aprot, ks, vrs, keyform, allow_i = False, [True, True], [True, True], [0, 0], [v0, v0], 0, 0
        else:
            n, p0, p1, ap0, k0, k1, v0, v1, keyform = args
            ap1, allow_i = ap0, 5
            flat, prot, aprot, ks, vrs, with_payload, sigs_present = False, [p0, p1], [ap0, ap1], [k0, k1], [v0, v1], True, True
        KID = [None, "a", "b", "c"]
        karg, resolve = _real_keys(keyform)
        pseg = R.b64e(PAYLOAD)
        import random as _random
        pool = [dict(R.test_key("oct32"), kid="a"), dict(R.test_key("oct48"), kid="b")]
        last = None
        # a signature whose key the set cannot resolve is made, in turn, with each key of the set while random.choice is steered to that
        # key: an implementation that silently picks a key instead of refusing is then caught whatever it picks
        for cand in range(2):
            sigs, all_ok = [], n >= 1
            for i in range(n):
                p, u = {}, {}
                (p if (prot[i] and aprot[i]) else u)["alg"] = "HS256" if i == 0 else "HS384"
                if KID[ks[i]] is not None:
                    u["kid"] = KID[ks[i]]
                d = {}
                pr = ""
                if prot[i]:
                    pr = R.b64e(json.dumps(p, separators=(",", ":")).encode())
                    d["protected"] = pr
                if u:
                    d["header"] = u
                merged = dict(p)
                merged.update(u)
                jwk = resolve(merged)
                si = pr.encode() + b"." + pseg.encode()
                d["signature"] = R.b64e(_real_sig(merged["alg"], jwk or pool[cand], si, vrs[i]))
                sigs.append(d)
                ok = jwk is not None and R.jws_verify(merged["alg"], jwk, si, R.b64d(d["signature"])) and allowed(merged["alg"], ALLOW[allow_i])
                all_ok = all_ok and ok
            value = dict(sigs[0]) if flat else ({"signatures": sigs} if sigs_present else {})
            if with_payload:
                value["payload"] = pseg
            oc = _random.choice
            _random.choice = lambda seq, _c=cand: seq[_c % len(seq)]
            try:
                obj = jws.deserialize_json(value, karg, ALLOW[allow_i])
            except Exception as e:  # noqa
                last = {"violated": False, "detail": "real code rejected: %s" % type(e).__name__}
                continue
            finally:
                _random.choice = oc
            last = _judge("json", True, obj.payload, all_ok and with_payload and sigs_present, PAYLOAD, "value=%r" % (value,))
            if last["violated"]:
                return last
        return last
    if func in ("rfc7797_compact", "rfc7797_compact_witness"):
        has_b64, b64_i, has_crit, crit_lists_b64, p_empty, given, vr = args
        hdr = {"alg": "HS256"}
        if has_b64:
            hdr["b64"] = B64V[b64_i]
        if has_crit:
            hdr["crit"] = ["b64"] if crit_lists_b64 else ["alg"]
        given_payload = [None, b"", b"detached-octets"][given]
        unenc = hdr.get("b64") is False
        jwk = R.test_key("oct32")
        from joserfc.jwk import OctKey
        key = OctKey.import_key(jwk)
        hseg = R.b64e(json.dumps(hdr, separators=(",", ":")).encode()).encode()
        attached = b"" if p_empty else (b"attached_payload" if unenc else R.b64e(PAYLOAD).encode())
        signed = (given_payload if given_payload else attached) if unenc else attached
        want = signed if unenc else (b"" if p_empty else PAYLOAD)
        ok = vr and (not has_b64 or (has_crit and crit_lists_b64 and isinstance(B64V[b64_i], bool)))
        last = None
        # "verdict valid" = the signature is valid for whatever octets the library chose to verify: try every candidate
        for cand in [signed] + [c for c in (attached, given_payload or b"") if c != signed]:
            sig = _real_sig("HS256", jwk, hseg + b"." + cand, vr)
            token = hseg + b"." + attached + b"." + R.b64e(sig).encode()
            try:
                obj = d7797_compact(token, key, given_payload)
            except Exception as e:  # noqa
                last = {"violated": False, "detail": "real code rejected: %s" % type(e).__name__}
                continue
            j = _judge("7797-compact", True, obj.payload, ok and cand == signed, want,
                       "token=%r payload arg=%r signature made over header.%r" % (token, given_payload, cand))
            if j["violated"]:
                return j
            last = j
        return last
    if func in ("rfc7797_json", "rfc7797_json_unprotected"):
        if func == "rfc7797_json":
            where, b64_i, with_crit, p0, v0, dup = args
        else:
            (b64_i, with_crit, p0, v0), where = args, 2
        from joserfc.jwk import OctKey
        jwk = R.test_key("oct32")
        key = OctKey.import_key(jwk)
        p, u = {"alg": "HS256"}, {}
        if where:
            tgt = p if where == 1 else u
            tgt["b64"] = B64V[b64_i]
            if with_crit:
                tgt["crit"] = ["b64"]
        prot = p0 or where == 1
        if not prot:
            u["alg"] = "HS256"
        unenc = where != 0 and B64V[b64_i] is False
        pr = R.b64e(json.dumps(p, separators=(",", ":")).encode()) if prot else ""
        text = "unencoded_payload_text" if unenc else R.b64e(PAYLOAD)
        value = {"payload": text, "signature": R.b64e(_real_sig("HS256", jwk, pr.encode() + b"." + text.encode(), v0))}
        if prot:
            value["protected"] = pr
        if u:
            value["header"] = u
        try:
            obj = d7797_json(value, key)
        except Exception as e:  # noqa
            return {"violated": False, "detail": "real code rejected: %s" % type(e).__name__}
        if where == 2 and unenc:
            return {"violated": True, "key": "c01-unprotected-b64",
                    "detail": "b64=false in the UNPROTECTED header was honoured: payload returned undecoded %r for %r" % (obj.payload, value)}
        ok = v0 and (where == 0 or with_crit)
        return _judge("7797-json", True, obj.payload, ok, text.encode() if unenc else PAYLOAD, "value=%r" % (value,))
    return {"violated": None, "detail": "no replay for %s" % func}
