"""C02 harnesses: JWE decryption (compact, flattened, general JSON) in the adversarial environment.

Symbolic: key-management mode, content encryption class, lengths of IV / tag / recovered CEK, presence of the encrypted
key, zip, AAD, epk validity, and the VERDICT of every unwrap / AEAD primitive.  Postcondition: the call returns only if the
AEAD primitive was asked exactly once, said "valid", about AAD = received protected segment ['.' received aad], the decoded
IV (of the enc's size) and the whole decoded tag, under the CEK recovered from THIS token with the recipient's key."""
from typing import Optional, List
import json, binascii, os
from joserfc import jwe
from joserfc.jwk import KeySet
from joserfc.jwe import JWERegistry
from joserfc.errors import JoseError
from vlib import ice, rt

PROT, EK, IV, CT, TAG, AAD = b"PROTSEG", b"EKSEG", b"IVSEG", b"CTSEG", b"TAGSEG", b"AADSEG"
EKV, CTV, AADV = b"encrypted-key-24-octets!", b"ciphertext-octets", b"aad-octets"
ENCS = [("A128GCM", 12, 16, "gcm"), ("A128CBC-HS256", 16, 32, "cbc"), ("C20P", 12, 32, "chacha"), ("XC20P", 24, 32, "chacha")]
from joserfc.drafts.jwe_chacha20 import register_chaha20_poly1305
register_chaha20_poly1305()   # draft content encryptions: registered explicitly (class-level table of this process only)
MODES = ["dir", "A128KW", "A128GCMKW", "RSA-OAEP", "ECDH-ES", "ECDH-ES+A128KW", "PBES2-HS256+A128KW", "ECDH-ES/OKP",
         "ECDH-1PU", "ECDH-1PU+A128KW"]
DIRECT = {"dir", "ECDH-ES", "ECDH-ES/OKP", "ECDH-1PU"}
from joserfc.drafts.jwe_ecdh_1pu import register_ecdh_1pu
register_ecdh_1pu()          # draft algorithm: has to be registered explicitly (class-level table of this process only)

K16, K32 = ice.fake_key("oct16", kid="k16"), ice.fake_key("oct32", kid="k32")
K16B = ice.fake_key("oct16", kid="k16b")
KRSA = ice.fake_key("RSA", kid="rsa", private=True)
KEC = ice.fake_key("P-256", kid="ec", private=True)
KX = ice.fake_key("X25519", kid="x", private=True)
KPW = ice.fake_key("oct24", kid="pw")
KSND = ice.fake_key("P-256", kid="snd", private=False)          # the sender's static public key (ECDH-1PU)
KSND384 = ice.fake_key("P-384", kid="snd384", private=False)


def octets(n, seed=1):
    return bytes((seed * 31 + i * 7) % 256 for i in range(n))


def scenario(mode_i, enc_i, iv_i, tag_i, ek_present, cek_i, has_zip, epk_bad, p2c=1000):
    mode = MODES[mode_i]
    alg = "ECDH-ES" if mode == "ECDH-ES/OKP" else mode
    encname, ivlen, ceklen, kind = ENCS[enc_i]
    hdr = {"alg": alg, "enc": encname}
    if has_zip:
        hdr["zip"] = "DEF"
    key = {"dir": K16 if ceklen == 16 else K32, "A128KW": K16, "A128GCMKW": K16, "RSA-OAEP": KRSA, "ECDH-ES": KEC,
           "ECDH-ES+A128KW": KEC, "PBES2-HS256+A128KW": KPW, "ECDH-ES/OKP": KX, "ECDH-1PU": KEC, "ECDH-1PU+A128KW": KEC}[mode]
    binds = {}
    if mode == "A128GCMKW":
        hdr["iv"], hdr["tag"] = "KWIVSEG", "KWTAGSEG"
        binds[b"KWIVSEG"], binds[b"KWTAGSEG"] = octets(12, 5), octets(16, 6)
    if mode.startswith("PBES2"):
        hdr["p2s"], hdr["p2c"] = "P2SSEG", p2c
        binds[b"P2SSEG"] = b"salt-input"
    if mode.startswith("ECDH"):
        if mode == "ECDH-ES/OKP":
            hdr["epk"] = {"kty": "OKP", "crv": "X448" if epk_bad == 2 else "X25519", "x": "EPKX"}
        else:
            hdr["epk"] = {"kty": "EC", "crv": "P-384" if epk_bad == 2 else "P-256", "x": "EPKX", "y": "EPKY"}
        binds[b"EPKX"], binds[b"EPKY"] = octets(32, 8), octets(32, 9)
    ivv = octets([ivlen, ivlen - 1, ivlen + 4, 0][iv_i], 2)
    tagv = octets([16, 8, 0, 17][tag_i], 3)
    cekv = octets([ceklen, ceklen - 8, ceklen + 8][cek_i], 4)
    return dict(mode=mode, alg=alg, enc=encname, kind=kind, ivlen=ivlen, ceklen=ceklen, hdr=hdr, key=key, binds=binds,
                iv=ivv, tag=tagv, cek=cekv, ek=EKV if ek_present else b"", epk_bad=epk_bad, p2c=p2c)


def make_env(sc, verdicts):
    env = ice.Env(True, verdicts)
    env.bind_b64(PROT, b"PROTJSON")
    env.bind_json(b"PROTJSON", lambda: ice.jcopy(sc["hdr"]))
    env.bind_b64(EK, EKV)
    env.bind_b64(IV, sc["iv"])
    env.bind_b64(CT, CTV)
    env.bind_b64(TAG, sc["tag"])
    env.bind_b64(AAD, AADV)
    for k, v in sc["binds"].items():
        env.bind_b64(k, v)
    env.ceks = [sc["cek"]]
    env.epk_invalid = sc["epk_bad"] == 1
    return env


_PATCHES = None


def patches():
    global _PATCHES
    if _PATCHES is None:
        _PATCHES = ice.jwe_patches() + ice.ec_import_patches() + ice.okp_import_patches() + ice.keygen_patches()
    return _PATCHES


def run_compact(sc, verdicts, sender=None):
    env = make_env(sc, verdicts)
    token = b".".join([PROT, EK if sc["ek"] else b"", IV if sc["iv"] else b"", CT, TAG if sc["tag"] else b""])
    with env.installed(patches()):
        try:
            obj = jwe.decrypt_compact(token, sc["key"], algorithms=[sc["alg"], sc["enc"], "DEF"], sender_key=sender)
        except ice.HarnessError:
            raise
        except Exception as e:  # noqa
            return env, None, e
    return env, obj, None


def aead_calls(env):
    return env.of("gcm_decrypt") + env.of("chacha_decrypt")


def check_content(env, sc, aad, cek):
    """the AEAD was consulted exactly once, about exactly the received octets, and said valid"""
    if len(sc["iv"]) != sc["ivlen"]:
        return False
    if sc["kind"] in ("gcm", "chacha"):
        gs = [g for g in env.of("gcm_decrypt" if sc["kind"] == "gcm" else "chacha_decrypt") if g["aad"] is not None]
        if len(gs) != 1 or env.of("compare") or len(aead_calls(env)) != len(gs) + len([g for g in env.of("gcm_decrypt") if g["aad"] is None]):
            return False
        g = gs[0]
        return g["verdict"] is True and g["aad"] == aad and g["iv"] == sc["iv"] and g["tag"] == sc["tag"] and len(sc["tag"]) == 16 and g["ct"] == CTV and g["key"] == cek
    cmps, macs, cbcs = env.of("compare"), env.of("hmac"), env.of("cbc_decrypt")
    if len(cmps) != 1 or len(macs) != 1 or len(cbcs) != 1 or not cmps[0]["verdict"]:
        return False
    n = sc["ceklen"] // 2
    al = (8 * len(aad)).to_bytes(8, "big")
    want_mac = ice.mac_tag("sha256", cek[:n], aad + sc["iv"] + CTV + al)[:n]
    c = cmps[0]
    if not ((c["a"] == want_mac and c["b"] == sc["tag"]) or (c["b"] == want_mac and c["a"] == sc["tag"])):
        return False
    if len(sc["tag"]) != n:
        return False
    cb = cbcs[0]
    # CBC decryption only after the tag comparison, with the second half of the CEK
    order = [x["kind"] for x in env.calls if x["kind"] in ("compare", "cbc_decrypt")]
    return order == ["compare", "cbc_decrypt"] and cb["key"] == cek[n:] and cb["iv"] == sc["iv"] and cb["ct"] == CTV


def check_cek(env, sc, key):
    """-> the CEK the statement allows, or None if the mode's conditions are not met"""
    mode = sc["mode"]
    if mode in DIRECT and sc["ek"]:
        return None
    if mode == "dir":
        return key.raw_value
    if mode == "A128KW":
        us = env.of("unwrap")
        if len(us) != 1 or not us[0]["verdict"] or us[0]["key"] != key.raw_value or us[0]["ek"] != sc["ek"] or not sc["ek"]:
            return None
        return us[0]["out"]
    if mode == "A128GCMKW":
        gs = [g for g in env.of("gcm_decrypt") if g["aad"] is None]
        if len(gs) != 1 or not gs[0]["verdict"] or gs[0]["key"] != key.raw_value or gs[0]["ct"] != sc["ek"] or \
                gs[0]["iv"] != sc["binds"][b"KWIVSEG"] or gs[0]["tag"] != sc["binds"][b"KWTAGSEG"]:
            return None
        return gs[0]["out"]
    if mode == "RSA-OAEP":
        ds = env.of("rsa_decrypt")
        if len(ds) != 1 or ds[0]["key"] != "rsa" or ds[0]["ek"] != sc["ek"] or ds[0]["padding"] != ("OAEP", "sha1", "sha1", None) or "out" not in ds[0]:
            return None
        return ds[0]["out"]
    if mode.startswith("PBES2"):
        ps, us = env.of("pbkdf2"), env.of("unwrap")
        if len(ps) != 1 or len(us) != 1 or not us[0]["verdict"]:
            return None
        p = ps[0]
        if p["hash"] != "sha256" or p["length"] != 16 or p["salt"] != b"PBES2-HS256+A128KW\x00salt-input" or p["iterations"] != sc["p2c"] or p["key"] != key.raw_value:
            return None
        if us[0]["key"] != p["out"] or us[0]["ek"] != sc["ek"]:
            return None
        return us[0]["out"]
    # ECDH-ES / ECDH-1PU family
    if sc["epk_bad"]:
        return None
    xs, ks = env.of("exchange"), env.of("concatkdf")
    direct = "+" not in sc["alg"]
    if mode.startswith("ECDH-1PU"):
        # Z = Ze || Zs: the recipient's private key with the ephemeral key of THIS token and with the sender's static key
        snd = sc.get("sender")
        if snd is None or len(xs) != 2 or len(ks) != 1 or any(x["priv"] != key.kid for x in xs):
            return None
        ze = [x for x in xs if x["pub"] == "epk"]
        zs = [x for x in xs if x["pub"] == snd.kid]
        if len(ze) != 1 or len(zs) != 1 or ks[0]["z"] != ice.Opaque("cat", ze[0]["out"], zs[0]["out"]):
            return None
        if not direct and sc["kind"] != "cbc":
            return None                      # draft 2.1: key wrapping mode only with the AES_CBC_HMAC_SHA2 family
    elif len(xs) != 1 or len(ks) != 1 or xs[0]["priv"] != key.kid or xs[0]["pub"] != "epk" or ks[0]["z"] != xs[0]["out"]:
        return None
    k = ks[0]
    name = sc["enc"] if direct else sc["alg"]
    bits = sc["ceklen"] * 8 if direct else 128
    want_info = len(name).to_bytes(4, "big") + name.encode() + bytes(8) + bits.to_bytes(4, "big")
    if mode.startswith("ECDH-1PU") and not direct:
        want_info += len(sc["tag"]).to_bytes(4, "big") + sc["tag"]          # cctag: the received authentication tag
    if k["hash"] != "sha256" or k["length"] != bits // 8 or k["otherinfo"] != want_info:
        return None
    if direct:
        return k["out"]
    us = env.of("unwrap")
    if len(us) != 1 or not us[0]["verdict"] or us[0]["key"] != k["out"] or us[0]["ek"] != sc["ek"]:
        return None
    return us[0]["out"]


def judge_compact(env, obj, sc):
    cek = check_cek(env, sc, sc["key"])
    if cek is None or len(cek) != sc["ceklen"]:
        return False
    if not check_content(env, sc, PROT, cek):
        return False
    want = env.plaintext
    if "zip" in sc["hdr"]:
        zs = env.of("zdecompress")
        if len(zs) != 1 or zs[0]["data"] != env.plaintext or zs[0]["max_length"] != 256000:
            return False
        # decompression only after authentication
        kinds = [x["kind"] for x in env.calls]
        auth = {"gcm": "gcm_decrypt", "chacha": "chacha_decrypt"}.get(sc["kind"], "compare")
        if kinds.index("zdecompress") < max(i for i, k in enumerate(kinds) if k == auth):
            return False
        want = b"inflated:" + env.plaintext
    elif env.of("zdecompress"):
        return False
    return obj.plaintext == want and obj.protected == sc["hdr"]


def _compact(mode_i, enc_i, iv_i, tag_i, ek_present, cek_i, has_zip, epk_bad, v0, v1, p2c=1000):
    rt.tick()
    sc = scenario(mode_i, enc_i, iv_i, tag_i, ek_present, cek_i, has_zip, epk_bad, p2c)
    env, obj, exc = run_compact(sc, [v0, v1])
    if obj is None:
        return True
    return judge_compact(env, obj, sc)


def compact_dir(enc_i: int, iv_i: int, tag_i: int, ek_present: bool, has_zip: bool, v0: bool) -> bool:
    """
    pre: 0 <= enc_i <= 1 and 0 <= iv_i <= 3 and 0 <= tag_i <= 3
    post: _
    """
    return _compact(0, enc_i, iv_i, tag_i, ek_present, 0, has_zip, 0, v0, v0)


def compact_kw(enc_i: int, iv_i: int, tag_i: int, ek_present: bool, cek_i: int, has_zip: bool, v0: bool, v1: bool) -> bool:
    """
    pre: 0 <= enc_i <= 1 and 0 <= iv_i <= 1 and 0 <= tag_i <= 1 and 0 <= cek_i <= 2
    post: _
    """
    return _compact(1, enc_i, iv_i, tag_i, ek_present, cek_i, has_zip, 0, v0, v1)


def compact_gcmkw(enc_i: int, iv_i: int, tag_i: int, ek_present: bool, cek_i: int, v0: bool, v1: bool) -> bool:
    """
    pre: 0 <= enc_i <= 1 and 0 <= iv_i <= 1 and 0 <= tag_i <= 1 and 0 <= cek_i <= 2
    post: _
    """
    return _compact(2, enc_i, iv_i, tag_i, ek_present, cek_i, False, 0, v0, v1)


def compact_rsa(enc_i: int, iv_i: int, tag_i: int, ek_present: bool, cek_i: int, v0: bool, v1: bool) -> bool:
    """
    pre: 0 <= enc_i <= 1 and 0 <= iv_i <= 1 and 0 <= tag_i <= 1 and 0 <= cek_i <= 2
    post: _
    """
    return _compact(3, enc_i, iv_i, tag_i, ek_present, cek_i, False, 0, v0, v1)


def compact_ecdh(okp: bool, enc_i: int, iv_i: int, tag_i: int, ek_present: bool, epk_bad: int, v0: bool) -> bool:
    """
    pre: 0 <= enc_i <= 1 and 0 <= iv_i <= 1 and 0 <= tag_i <= 1 and 0 <= epk_bad <= 2
    post: _
    """
    return _compact(7 if okp else 4, enc_i, iv_i, tag_i, ek_present, 0, False, epk_bad, v0, v0)


def compact_ecdhkw(enc_i: int, iv_i: int, tag_i: int, ek_present: bool, cek_i: int, epk_bad: int, v0: bool, v1: bool) -> bool:
    """
    pre: 0 <= enc_i <= 1 and 0 <= iv_i <= 1 and 0 <= tag_i <= 1 and 0 <= cek_i <= 2 and 0 <= epk_bad <= 2
    post: _
    """
    return _compact(5, enc_i, iv_i, tag_i, ek_present, cek_i, False, epk_bad, v0, v1)


def compact_pbes2(enc_i: int, iv_i: int, tag_i: int, ek_present: bool, cek_i: int, p2c_i: int, v0: bool, v1: bool) -> bool:
    """
    pre: 0 <= enc_i <= 1 and 0 <= iv_i <= 1 and 0 <= tag_i <= 1 and 0 <= cek_i <= 2 and 0 <= p2c_i <= 3
    post: _
    """
    return _compact(6, enc_i, iv_i, tag_i, ek_present, cek_i, False, 0, v0, v1, P2C[p2c_i])


P2C = [1000, 1, 999, 4096]         # the iteration count the key is derived with is the one in the header, small or large


def compact_chacha(kw: bool, xc: bool, iv_i: int, tag_i: int, ek_present: bool, cek_i: int, has_zip: bool, v0: bool, v1: bool) -> bool:
    """
    pre: 0 <= iv_i <= 3 and 0 <= tag_i <= 3 and 0 <= cek_i <= 2
    post: _
    """
    # the draft content encryptions C20P (96-bit nonce) and XC20P (192-bit nonce), direct and with A128KW
    return _compact(1 if kw else 0, 3 if xc else 2, iv_i, tag_i, ek_present, cek_i if kw else 0, has_zip, 0, v0, v1)


def compact_chacha_witness(kw: bool, xc: bool, v0: bool, v1: bool) -> bool:
    """
    post: _
    """
    sc = scenario(1 if kw else 0, 3 if xc else 2, 0, 0, kw, 0, False, 0)
    env, obj, exc = run_compact(sc, [v0, v1])
    return not (obj is not None and kw and xc)


def compact_1pu(direct: bool, enc_i: int, iv_i: int, tag_i: int, ek_present: bool, cek_i: int, epk_bad: int, sender_i: int, v0: bool, v1: bool) -> bool:
    """
    pre: 0 <= enc_i <= 1 and 0 <= iv_i <= 1 and 0 <= tag_i <= 1 and 0 <= cek_i <= 2 and 0 <= epk_bad <= 2 and 0 <= sender_i <= 2
    post: _
    """
    rt.tick()
    sc = scenario(8 if direct else 9, enc_i, iv_i, tag_i, ek_present, cek_i, False, epk_bad)
    sc["sender"] = [KSND, None, KSND384][sender_i]
    env, obj, exc = run_compact(sc, [v0, v1], sc["sender"])
    if obj is None:
        return True
    if sender_i != 0:
        return False                         # no sender key / a sender key on another curve can never yield a plaintext
    return judge_compact(env, obj, sc)


def compact_1pu_witness(direct: bool, enc_i: int, v0: bool, v1: bool) -> bool:
    """
    pre: 0 <= enc_i <= 1
    post: _
    """
    sc = scenario(8 if direct else 9, enc_i, 0, 0, not direct, 0, False, 0)
    sc["sender"] = KSND
    env, obj, exc = run_compact(sc, [v0, v1], KSND)
    return not (obj is not None and not direct and enc_i == 1)


def compact_witness(mode_i: int, enc_i: int, has_zip: bool, v0: bool, v1: bool) -> bool:
    """
    pre: 0 <= mode_i <= 7 and 0 <= enc_i <= 1
    post: _
    """
    sc = scenario(mode_i, enc_i, 0, 0, MODES[mode_i] not in DIRECT, 0, has_zip, 0)
    env, obj, exc = run_compact(sc, [v0, v1])
    return not (obj is not None and mode_i == 5 and enc_i == 1)


def compact_reject_witness(mode_i: int, enc_i: int, v0: bool, v1: bool) -> bool:
    """
    pre: 0 <= mode_i <= 7 and 0 <= enc_i <= 1
    post: _
    """
    sc = scenario(mode_i, enc_i, 0, 0, MODES[mode_i] not in DIRECT, 0, False, 0)
    env, obj, exc = run_compact(sc, [v0, v1])
    return not (exc is not None and mode_i == 1 and v0 and not v1)


# ------------------------------------------------------------------ JSON serializations (A128KW recipients, key set)
def run_json(n, flattened, has_aad, ek_present, ceks, verdicts, verify_all, enc_i, alg_where):
    encname, ivlen, ceklen, kind = ENCS[enc_i]
    hdr = {"enc": encname}
    unprot = None
    if alg_where == 0:
        hdr["alg"] = "A128KW"
    elif alg_where == 1:
        unprot = {"alg": "A128KW"}
    sc = dict(kind=kind, ivlen=ivlen, ceklen=ceklen, iv=octets(ivlen, 2), tag=octets(16, 3), enc=encname, hdr=hdr)
    env = ice.Env(True, verdicts)
    env.bind_b64(PROT, b"PROTJSON")
    env.bind_json(b"PROTJSON", lambda: ice.jcopy(hdr))
    for i in range(2):
        env.bind_b64(b"EKSEG%d" % i, b"encrypted-key-24-octet-%d" % i)
    env.bind_b64(IV, sc["iv"])
    env.bind_b64(CT, CTV)
    env.bind_b64(TAG, sc["tag"])
    env.bind_b64(AAD, AADV)
    env.ceks = list(ceks)
    recs = []
    kids = ["k16", "k16b"]
    for i in range(n):
        r = {"header": {"kid": kids[i]}}
        if alg_where == 2:
            r["header"]["alg"] = "A128KW"
        if ek_present[i]:
            r["encrypted_key"] = "EKSEG%d" % i
        recs.append(r)
    value = {"protected": "PROTSEG", "iv": "IVSEG", "ciphertext": "CTSEG", "tag": "TAGSEG"}
    if unprot:
        value["unprotected"] = unprot
    if has_aad:
        value["aad"] = "AADSEG"
    if flattened:
        value.update(recs[0])
    else:
        value["recipients"] = recs
    ks = KeySet([K16, K16B])
    reg = JWERegistry(algorithms=["A128KW", encname], verify_all_recipients=verify_all)
    with env.installed(patches()):
        try:
            obj = jwe.decrypt_json(value, ks, registry=reg)
        except ice.HarnessError:
            raise
        except Exception as e:  # noqa
            return env, None, e, sc
    return env, obj, None, sc


def judge_json(env, obj, sc, n, has_aad, ek_present, verify_all):
    us = env.of("unwrap")
    keys = [K16.raw_value, K16B.raw_value]
    good = []
    ui = 0
    for i in range(n):
        if not ek_present[i]:
            if verify_all:
                return False
            continue
        if ui >= len(us):
            return False
        u = us[ui]
        ui += 1
        if u["key"] != keys[i] or u["ek"] != b"encrypted-key-24-octet-%d" % i:
            return False
        if u["verdict"]:
            good.append(u["out"])
        elif verify_all:
            return False
    if ui != len(us) or not good:
        return False
    if any(c != good[0] for c in good) or len(good[0]) != sc["ceklen"]:
        return False
    aad = PROT + (b"." + AAD if has_aad else b"")
    if not check_content(env, sc, aad, good[0]):
        return False
    return obj.plaintext == env.plaintext


def general_json(n: int, has_aad: bool, e0: bool, e1: bool, c0: int, c1: int, v0: bool, v1: bool, va: bool, verify_all: bool, enc_i: int) -> bool:
    """
    pre: 1 <= n <= 2 and 0 <= c0 <= 2 and 0 <= c1 <= 2 and 0 <= enc_i <= 1
    post: _
    """
    rt.tick()
    ceklen = ENCS[enc_i][2]
    ceks = [octets(ceklen, 4), octets(ceklen, 5), octets(ceklen - 8, 4)]
    env, obj, exc, sc = run_json(n, False, has_aad, [e0, e1], [ceks[c0], ceks[c1]], [v0, v1, va], verify_all, enc_i, 2)
    if obj is None:
        return True
    return judge_json(env, obj, sc, n, has_aad, [e0, e1], verify_all)


def general_json_witness(n: int, has_aad: bool, e0: bool, e1: bool, c0: int, c1: int, v0: bool, v1: bool, va: bool, verify_all: bool, enc_i: int) -> bool:
    """
    pre: 1 <= n <= 2 and 0 <= c0 <= 2 and 0 <= c1 <= 2 and 0 <= enc_i <= 1
    post: _
    """
    ceklen = ENCS[enc_i][2]
    ceks = [octets(ceklen, 4), octets(ceklen, 5), octets(ceklen - 8, 4)]
    env, obj, exc, sc = run_json(n, False, has_aad, [e0, e1], [ceks[c0], ceks[c1]], [v0, v1, va], verify_all, enc_i, 2)
    return not (obj is not None and n == 2 and has_aad and not verify_all and not v0)


def flattened_json(has_aad: bool, e0: bool, c0: int, v0: bool, va: bool, alg_where: int, enc_i: int) -> bool:
    """
    pre: 0 <= c0 <= 2 and 0 <= alg_where <= 2 and 0 <= enc_i <= 1
    post: _
    """
    rt.tick()
    ceklen = ENCS[enc_i][2]
    ceks = [octets(ceklen, 4), octets(ceklen, 5), octets(ceklen - 8, 4)]
    env, obj, exc, sc = run_json(1, True, has_aad, [e0, False], [ceks[c0]], [v0, va], True, enc_i, alg_where)
    if obj is None:
        return True
    return judge_json(env, obj, sc, 1, has_aad, [e0, False], True)


# ------------------------------------------------------------------ replay on the real code
REAL = {"ECDH-1PU": "P-256", "ECDH-1PU+A128KW": "P-256", "dir": None, "A128KW": "oct16", "A128GCMKW": "oct16", "RSA-OAEP": "RSA2048", "ECDH-ES": "P-256", "ECDH-ES+A128KW": "P-256",
        "PBES2-HS256+A128KW": "oct24", "ECDH-ES/OKP": "X25519"}


def _flip(b, i=0):
    return bytes([b[i] ^ 1]) + b[i + 1:] if b else b"\x01"


def _mint(sc, R, vu, va, extra_hdr=None, aad=None):
    """an honest token for the scenario made by the independent implementation, then the scenario's tampering.
    -> list of (label, token bytes) candidates"""
    mode, alg, enc = sc["mode"], sc["alg"], sc["enc"]
    kind = REAL[mode] or ("oct16" if sc["ceklen"] == 16 else "oct32")
    jwk = R.test_key(kind)
    wrong = [sc["ceklen"], sc["ceklen"] - 8, sc["ceklen"] + 8][[len(sc["cek"]) == sc["ceklen"], len(sc["cek"]) < sc["ceklen"], len(sc["cek"]) > sc["ceklen"]].index(True)]
    cek_in = None if wrong == sc["ceklen"] else bytes((i * 5 + 1) % 256 for i in range(wrong))
    add, ek, cek = R.key_manage(alg, enc, R.public_jwk(jwk) if jwk["kty"] != "oct" else jwk, cek=cek_in, p2s=b"salt-input", p2c=sc.get("p2c", 1000),
                                sender_priv=sc.get("sender_jwk"))
    hdr = {"alg": alg, "enc": enc, **add}
    if "zip" in sc["hdr"]:
        hdr["zip"] = "DEF"
    if sc["epk_bad"] == 1 and "epk" in hdr:
        epk = dict(hdr["epk"])
        epk["x"] = R.b64e(b"\x01" * len(R.b64d(epk["x"])))
        hdr["epk"] = epk
    if sc["epk_bad"] == 2 and "epk" in hdr:
        other = "P-384" if hdr["epk"]["kty"] == "EC" else "X448"
        hdr["epk"] = R.public_jwk(R._ephemeral(other))
    iv = bytes((i * 3 + 2) % 256 for i in range(sc["ivlen"]))
    pt = b"the plaintext that was encrypted"
    return jwk, hdr, ek, cek, iv, pt


def _content(R, enc, cek, iv, aadbytes, pt, zipped):
    if zipped:
        import zlib
        c = zlib.compressobj(wbits=-15)
        pt = c.compress(pt) + c.flush()
    n = len(cek)
    if enc in ("C20P", "XC20P"):
        return R.content_encrypt(enc, cek, iv, aadbytes, pt)
    if enc.endswith("GCM"):
        from cryptography.hazmat.primitives.ciphers.aead import AESGCM
        out = AESGCM(cek).encrypt(iv, pt, aadbytes)
        return out[:-16], out[-16:]
    # CBC-HMAC with whatever split the LIBRARY would use for this enc name (first key_len octets = MAC key)
    import hmac as _h, hashlib as _hl, struct
    from cryptography.hazmat.primitives.ciphers import Cipher, algorithms, modes
    from cryptography.hazmat.primitives import padding as sp
    kl = R.ENC[enc][1]
    mac_key, enc_key = cek[:kl], cek[kl:]
    if len(enc_key) not in (16, 24, 32):
        enc_key = (enc_key + bytes(32))[:16]
    p = sp.PKCS7(128).padder()
    data = p.update(pt) + p.finalize()
    e = Cipher(algorithms.AES(enc_key), modes.CBC(iv)).encryptor()
    ct = e.update(data) + e.finalize()
    tag = _h.new(mac_key, aadbytes + iv + ct + struct.pack(">Q", 8 * len(aadbytes)), getattr(_hl, R.ENC[enc][2])).digest()[:kl]
    return ct, tag


def replay(func, call):
    import warnings
    warnings.simplefilter("ignore")
    from vlib import refjose as R
    from joserfc.jwk import JWKRegistry
    args = eval("(" + call + ",)")
    p2c = 1000
    if func.startswith("compact_"):
        if func == "compact_dir":
            enc_i, iv_i, tag_i, ek_present, has_zip, v0 = args
            mode_i, cek_i, epk_bad, v1 = 0, 0, 0, v0
        elif func == "compact_kw":
            enc_i, iv_i, tag_i, ek_present, cek_i, has_zip, v0, v1 = args
            mode_i, epk_bad = 1, 0
        elif func in ("compact_gcmkw", "compact_rsa", "compact_pbes2"):
            if func == "compact_pbes2":
                enc_i, iv_i, tag_i, ek_present, cek_i, p2c_i, v0, v1 = args
                p2c = P2C[p2c_i]
            else:
                enc_i, iv_i, tag_i, ek_present, cek_i, v0, v1 = args
            mode_i, has_zip, epk_bad = {"compact_gcmkw": 2, "compact_rsa": 3, "compact_pbes2": 6}[func], False, 0
        elif func == "compact_ecdh":
            okp, enc_i, iv_i, tag_i, ek_present, epk_bad, v0 = args
            mode_i, cek_i, has_zip, v1 = (7 if okp else 4), 0, False, v0
        elif func == "compact_ecdhkw":
            enc_i, iv_i, tag_i, ek_present, cek_i, epk_bad, v0, v1 = args
            mode_i, has_zip = 5, False
        elif func == "compact_1pu":
            direct1, enc_i, iv_i, tag_i, ek_present, cek_i, epk_bad, sender_i, v0, v1 = args
            mode_i, has_zip = (8 if direct1 else 9), False
        elif func == "compact_chacha":
            kw_, xc_, iv_i, tag_i, ek_present, cek_i, has_zip, v0, v1 = args
            mode_i, enc_i, epk_bad = (1 if kw_ else 0), (3 if xc_ else 2), 0
            if not kw_:
                cek_i, v1 = 0, v0
        else:
            return {"violated": None, "detail": "witness"}
        sc = scenario(mode_i, enc_i, iv_i, tag_i, ek_present, cek_i, has_zip, epk_bad, p2c)
        sender_arg = None
        if func == "compact_1pu":
            from cryptography.hazmat.primitives.asymmetric import ec as _ec

            def _snd(crv, curve, L, d):
                pn = _ec.derive_private_key(d, curve).public_key().public_numbers()
                return {"kty": "EC", "crv": crv, "x": R.i2b(pn.x, L), "y": R.i2b(pn.y, L), "d": R.i2b(d, L)}
            sc["sender_jwk"] = _snd("P-256", _ec.SECP256R1(), 32, 0x1234567)
            other = _snd("P-384", _ec.SECP384R1(), 48, 0x7654321)
            sender_arg = [JWKRegistry.import_key(R.public_jwk(sc["sender_jwk"])), None, JWKRegistry.import_key(R.public_jwk(other))][sender_i]
        direct = sc["mode"] in DIRECT
        vu, va = (True, v0) if direct else (v0, v1)
        jwk, hdr, ek, cek, iv, pt = _mint(sc, R, vu, va)
        key = JWKRegistry.import_key(jwk)
        spellings = [json.dumps(hdr, separators=(",", ":")).encode(), json.dumps(hdr, separators=(", ", ": ")).encode()]
        last = None
        for si, text in enumerate(spellings):
            hseg = R.b64e(text).encode()
            try:
                ct, tag = _content(R, sc["enc"], cek, iv, hseg, pt, has_zip)
            except Exception as e:  # noqa
                return {"violated": None, "detail": "cannot mint: %r" % (e,)}
            # re-spelt header twin: the header segment is re-spelt AFTER encryption (tag made for spelling 0)
            for respelt in ([False, True] if si == 0 else [False]):
                h2 = R.b64e(spellings[1]).encode() if respelt else hseg
                ekx = ek
                if direct and ek_present:
                    ekx = b"unexpected-encrypted-key"
                if not direct and not ek_present:
                    ekx = b""
                if not direct and not vu and ekx:
                    ekx = _flip(ekx, len(ekx) // 2)
                if sc["mode"] == "ECDH-1PU+A128KW" and ekx and ek_present:
                    # key agreement with key wrapping: the KDF input contains the authentication tag of the content
                    _, ekx, _ = R.key_manage(sc["alg"], sc["enc"], R.public_jwk(jwk), cek=cek, sender_priv=sc["sender_jwk"], tag_for_1pu=tag)
                    if not vu:
                        ekx = _flip(ekx, len(ekx) // 2)
                ivx = [iv, iv[:-1], iv + b"\x00" * 4, b""][iv_i]
                tagx = [tag, tag[:8], b"", tag + b"\x00"][tag_i]
                ctx = ct if va else _flip(ct)
                pairs = [(ctx, tagx)]
                if va and sc["kind"] == "gcm":
                    # the same tag-length class realised as a PAIRED fault: octets moved across the ciphertext / tag boundary
                    # (ciphertext || tag unchanged as a whole)
                    pairs += {1: [(ct + tag[:8], tag[8:])], 2: [(ct + tag, b"")], 3: [(ct[:-1], ct[-1:] + tag)] if ct else []}.get(tag_i, [])
                obj = None
                for ctx, tagx in pairs:
                    token = b".".join(R.b64e(x).encode() if not isinstance(x, str) else x.encode() for x in [b"", ekx, ivx, ctx, tagx])
                    token = h2 + token
                    try:
                        obj = jwe.decrypt_compact(token, key, algorithms=[sc["alg"], sc["enc"], "DEF"], sender_key=sender_arg)
                        break
                    except Exception as e:  # noqa
                        last = {"violated": False, "detail": "real code rejected (%s)" % type(e).__name__}
                if obj is None:
                    honest = iv_i == 0 and tag_i == 0 and cek_i == 0 and epk_bad == 0 and vu and va and (ek_present != direct) and not respelt \
                        and (func != "compact_1pu" or sender_i == 0)
                    if honest and os.environ.get("VERIF_PROPERTY") == "C08":
                        # wire-format property: an untampered token of the independent implementation must decrypt
                        try:
                            ref_pt, _ = R.compact_decrypt(token, jwk, sender_pub=R.public_jwk(sc["sender_jwk"]) if func == "compact_1pu" else None)
                        except R.RefError:
                            ref_pt = None
                        if ref_pt == (pt if True else None):
                            return {"violated": True, "key": "c08-consumer", "detail": "joserfc rejects (%s) an untampered %s/%s token minted by the independent "
                                    "implementation (header %r)" % (last["detail"], sc["alg"], sc["enc"], hdr)}
                    continue
                try:
                    ref_pt, _ = R.compact_decrypt(token, jwk, sender_pub=R.public_jwk(sc["sender_jwk"]) if sender_arg is not None and sender_i == 0 else None) \
                        if func == "compact_1pu" else R.compact_decrypt(token, jwk)
                    ok = True
                except R.RefError as e:
                    ok, ref_pt = False, repr(e)
                if not ok:
                    return {"violated": True, "key": "c02-compact", "detail": "decrypt_compact returned %r although an independent RFC 7516 "
                            "implementation rejects the token (%s); mode=%s enc=%s respelt_header=%s token=%r" % (obj.plaintext[:40], ref_pt, sc["mode"], sc["enc"], respelt, token)}
                if obj.plaintext != ref_pt:
                    return {"violated": True, "key": "c02-compact-plaintext", "detail": "plaintext %r differs from the independent implementation's %r" % (obj.plaintext, ref_pt)}
                last = {"violated": False, "detail": "real code accepted a token the independent implementation accepts too"}
        return last
    if func in ("general_json", "flattened_json"):
        if func == "general_json":
            n, has_aad, e0, e1, c0, c1, v0, v1, va, verify_all, enc_i = args
            flat, alg_where = False, 2
        else:
            has_aad, e0, c0, v0, va, alg_where, enc_i = args
            n, e1, c1, v1, verify_all, flat = 1, False, 0, True, True, True
        encname, ivlen, ceklen, kind = ENCS[enc_i]
        from cryptography.hazmat.primitives.keywrap import aes_key_wrap
        jw = [dict(R.test_key("oct16"), kid="k16"), dict(R.test_key("oct16"), kid="k16b")]
        jw[1]["k"] = R.b64e(bytes((i * 9 + 4) % 256 for i in range(16)))
        ceks = [bytes((i * 5 + 1) % 256 for i in range(ceklen)), bytes((i * 5 + 2) % 256 for i in range(ceklen)), bytes((i * 5 + 1) % 256 for i in range(ceklen - 8))]
        hdr = {"enc": encname}
        if alg_where == 0:
            hdr["alg"] = "A128KW"
        pseg = R.b64e(json.dumps(hdr, separators=(",", ":")).encode())
        aadseg = R.b64e(b"additional data") if has_aad else None
        aadbytes = pseg.encode() + ((b"." + aadseg.encode()) if has_aad else b"")
        iv = bytes(range(ivlen))
        pt = b"json plaintext"
        cs, es, vs = [c0, c1], [e0, e1], [v0, v1]
        # content is encrypted under the CEK of the LAST recipient that unwraps (what a first/last-wins decryptor would use) and, as
        # a second candidate, under the first one
        for pick in (-1, 0):
            goods = [ceks[cs[i]] for i in range(n) if es[i] and vs[i]]
            content_cek = goods[pick] if goods else ceks[0]
            try:
                ct, tag = _content(R, encname, content_cek, iv, aadbytes, pt, False)
            except Exception as e:  # noqa
                continue
            if not va:
                ct = _flip(ct)
            recs = []
            for i in range(n):
                r = {"header": {"kid": jw[i]["kid"]}}
                if alg_where == 2:
                    r["header"]["alg"] = "A128KW"
                if es[i]:
                    ekb = aes_key_wrap(R.b64d(jw[i]["k"]), ceks[cs[i]])
                    if not vs[i]:
                        ekb = _flip(ekb, 5)
                    r["encrypted_key"] = R.b64e(ekb)
                recs.append(r)
            value = {"protected": pseg, "iv": R.b64e(iv), "ciphertext": R.b64e(ct), "tag": R.b64e(tag)}
            if alg_where == 1:
                value["unprotected"] = {"alg": "A128KW"}
            if has_aad:
                value["aad"] = aadseg
            if flat:
                value.update(recs[0])
            else:
                value["recipients"] = recs
            ks = KeySet([JWKRegistry.import_key(j) for j in jw])
            reg = JWERegistry(algorithms=["A128KW", encname], verify_all_recipients=verify_all)
            try:
                obj = jwe.decrypt_json(value, ks, registry=reg)
            except Exception as e:  # noqa
                last = {"violated": False, "detail": "real code rejected (%s)" % type(e).__name__}
                continue
            try:
                ref_pt, _ = R.json_decrypt(value, lambda h: {j["kid"]: j for j in jw}.get(h.get("kid")), any_recipient=not verify_all)
                ok = True
            except R.RefError as e:
                ok, ref_pt = False, repr(e)
            if not ok or obj.plaintext != ref_pt:
                return {"violated": True, "key": "c02-json", "detail": "decrypt_json returned %r; independent implementation: %s; value=%r" % (obj.plaintext, ref_pt, value)}
            last = {"violated": False, "detail": "accepted by both"}
        return last
    return {"violated": None, "detail": "no replay for " + func}
