"""C03 (+C14, C07 producer side) harnesses: JWS sign-then-verify round trip in the IDEAL environment.

Ideal primitives: a signature verifies iff it was produced for exactly the same (family, key, parameters, message); MACs are
opaque functions of (hash, key, message); codecs are opaque bijections.  The round trip therefore succeeds iff the glue passes
consistent operands on both sides.  Symbolic: payload octets/text, algorithm, serialization, header placement, kid, key form
(key / key set / callable), which key random.choice picks."""
from typing import Optional, List, Union
import random
from joserfc import jws
from joserfc.jwk import KeySet
from joserfc.rfc7797 import serialize_compact as s7797_compact, deserialize_compact as d7797_compact, \
    serialize_json as s7797_json, deserialize_json as d7797_json
from joserfc.errors import JoseError
from vlib import ice, rt

ALGS = ["HS256", "HS384", "HS512", "RS256", "RS384", "RS512", "PS256", "PS384", "PS512", "ES256", "ES384", "ES512", "ES256K", "EdDSA", "EdDSA/448"]
KIND = {"HS": "oct64", "RS": "RSA", "PS": "RSA", "ES256": "P-256", "ES384": "P-384", "ES512": "P-521", "ES256K": "secp256k1", "EdDSA": "Ed25519",
        "EdDSA/448": "Ed448"}
PARAMS = {"RS256": (("PKCS1v15",), "sha256"), "RS384": (("PKCS1v15",), "sha384"), "RS512": (("PKCS1v15",), "sha512"),
          "PS256": (("PSS", "MGF1", "sha256", 32), "sha256"), "PS384": (("PSS", "MGF1", "sha384", 48), "sha384"),
          "PS512": (("PSS", "MGF1", "sha512", 64), "sha512"), "ES256": ("ECDSA", "sha256"), "ES384": ("ECDSA", "sha384"),
          "ES512": ("ECDSA", "sha512"), "ES256K": ("ECDSA", "sha256"), "EdDSA": (), "EdDSA/448": ()}


def kind_of(name):
    return KIND.get(name) or KIND[name[:2]]


def keys_for(name):
    k = kind_of(name)
    other = "oct32" if not k.startswith("oct") else "RSA"
    return [ice.fake_key(k, kid="k1", private=True), ice.fake_key(k, kid="k2", private=True), ice.fake_key(other, kid="k3", private=True)]


def public_of(key):
    """the verifier's view: same native public key, JWK without private members"""
    from joserfc.jwk import OctKey
    if isinstance(key, OctKey):
        return key
    d = {k: v for k, v in key.dict_value.items() if k != "d"}
    return type(key)(key.raw_value.public_key(), d)


class Choice:
    def __init__(self, idx):
        self.idx = idx
        self.calls = []

    def __call__(self, seq):
        self.calls.append(list(seq))
        return seq[self.idx % len(seq)]


def run(alg_i, ser, payload, kid_mode, keyform, pick, b64, extra_typ, unprot_kid, two_pick=0, prot_mode=0):
    """-> (env, produced, obj or exception, expectation dict)"""
    name = ALGS[alg_i]
    alg = name.split("/")[0]
    ks = keys_for(name)
    env = ice.Env(False)
    env.ecdsa_rs = (5, 7 << 200)
    choice = Choice(pick)
    hdr = {"alg": alg}
    if extra_typ:
        hdr["typ"] = "x"
    if b64 is not None:
        hdr["b64"] = b64
        hdr["crit"] = ["b64"]
    unprot = {}
    explicit_kid = None
    if kid_mode == 1:
        explicit_kid = "k2"
        (unprot if (unprot_kid and ser != 0) else hdr)["kid"] = "k2"
    if keyform == 0:
        skey = ks[0] if explicit_kid is None else ks[1]
        vkey = public_of(skey)
    else:
        sset = KeySet(ks)
        vset = KeySet([public_of(k) for k in ks])
        skey, vkey = (sset, vset) if keyform == 1 else ((lambda o: sset), (lambda o: vset))
    if prot_mode and ser != 0:
        # everything in the unprotected header; the protected header is an empty object (1) or absent (2)
        unprot = {**hdr, **unprot}
        hdr = {} if prot_mode == 1 else None
    given_hdr, given_unprot = ice.jcopy(hdr), ice.jcopy(unprot)
    use7797 = b64 is not None
    with env.installed([(random, "choice", choice)]):
        try:
            if ser == 0:
                tok = (s7797_compact if use7797 else jws.serialize_compact)(hdr, payload, skey, algorithms=[alg])
            elif ser == 1:
                member = {"protected": hdr} if hdr is not None else {}
                if unprot:
                    member["header"] = unprot
                tok = (s7797_json if use7797 else jws.serialize_json)(member, payload, skey, algorithms=[alg])
            else:
                members = [{**({"protected": hdr} if hdr is not None else {}), **({"header": unprot} if unprot else {})}]
                if ser == 3:
                    members.append({"protected": {"alg": alg, "typ": "second"}})
                tok = jws.serialize_json(members, payload, skey, algorithms=[alg])
        except ice.HarnessError:
            raise
        except Exception as e:  # noqa
            return env, None, e, None
        try:
            if ser == 0:
                pl = payload if (use7797 and b64 is False) else None
                obj = d7797_compact(tok, vkey, pl, algorithms=[alg]) if use7797 else jws.deserialize_compact(tok, vkey, algorithms=[alg])
            elif ser == 1 and use7797:
                obj = d7797_json(tok, vkey, algorithms=[alg])
            else:
                obj = jws.deserialize_json(tok, vkey, algorithms=[alg])
        except ice.HarnessError:
            raise
        except Exception as e:  # noqa
            return env, tok, e, None
    exp = {"hdr": given_hdr, "unprot": given_unprot, "choice": choice, "keys": ks, "explicit_kid": explicit_kid}
    return env, tok, obj, exp


def judge(env, tok, obj, exp, alg_i, ser, payload, kid_mode, keyform, b64):
    name = ALGS[alg_i]
    alg = name.split("/")[0]
    if isinstance(obj, Exception) or obj is None:
        return False                       # a correct key of the right type must round-trip
    pb = payload.encode() if isinstance(payload, str) else payload
    if obj.payload != pb:
        return False
    ks = exp["keys"]
    # which key signed?  explicit kid -> k2; key set without kid -> the one random.choice picked among the right-typed keys
    if keyform == 0:
        signer = ks[1] if exp["explicit_kid"] else ks[0]
        want_kid = exp["explicit_kid"]
    elif exp["explicit_kid"]:
        signer, want_kid = ks[1], "k2"
    else:
        ch = exp["choice"]
        if len(ch.calls) < 1:
            return False
        cands = ch.calls[0]
        if [k.kid for k in cands] != ["k1", "k2"]:
            return False                   # candidates must be exactly the keys of the algorithm's key type
        signer = cands[ch.idx % 2]
        want_kid = signer.kid
    # headers returned = given ones (+ kid of the chosen key)
    if ser == 0:
        got = dict(obj.protected)
        want = dict(exp["hdr"])
        if want_kid and "kid" not in want:
            want["kid"] = want_kid
        if got != want:
            return False
    else:
        m = obj.members[0]
        want = dict(exp["hdr"] or {})
        want.update(exp["unprot"])
        if want_kid and "kid" not in want:
            want["kid"] = want_kid
        if m.headers() != want or (m.protected or {}) != (exp["hdr"] or {}):
            return False
    # operands: what was signed is what was verified, with the RFC's parameters, by the signer's key
    if alg.startswith("HS"):
        macs = env.of("hmac")
        n = 2 if ser != 3 else 4
        if len(macs) != n or macs[0]["msg"] != macs[n // 2]["msg"] or macs[0]["key"] != signer.raw_value or macs[0]["hash"] != "sha" + alg[2:]:
            return False
        if any(not c["verdict"] for c in env.of("compare")):
            return False
    else:
        ss, vs = env.of("sign"), env.of("verify")
        n = 1 if ser != 3 else 2
        if len(ss) != n or len(vs) != n:
            return False
        if ss[0]["msg"] != vs[0]["msg"] or ss[0]["key"] != signer.raw_value.kid or vs[0]["key"] != signer.raw_value.kid:
            return False
        if ss[0]["params"] != PARAMS[name] or vs[0]["params"] != PARAMS[name]:
            return False
    # C12: nothing private was encoded into the token
    if ice.leak_scan(env, tok, [k.raw_value for k in ks if k.key_type == "oct"], ["k1", "k2", "k3"]):
        return False
    return True


def _rt(alg_i, ser, payload, kid_mode, keyform, pick, extra_typ, unprot_kid, prot_mode=0):
    rt.tick()
    env, tok, obj, exp = run(alg_i, ser, payload, kid_mode, keyform, pick, None, extra_typ, unprot_kid, 0, prot_mode)
    if tok is None:
        return False
    return judge(env, tok, obj, exp, alg_i, ser, payload, kid_mode, keyform, None)


def roundtrip(alg_i: int, ser: int, payload: bytes, kid_mode: int, keyform: int, pick: int, extra_typ: bool, unprot_kid: bool) -> bool:
    """
    PRE: 0 <= alg_i < 15 and 0 <= ser <= 3 and len(payload) <= 2 and 0 <= kid_mode <= 1 and 0 <= keyform <= 2 and 0 <= pick <= 1
    POST: _
    """
    return _rt(alg_i, ser, payload, kid_mode, keyform, pick, extra_typ, unprot_kid)


def roundtrip_layout(alg_i: int, ser: int, payload: bytes, kid_mode: int, extra_typ: bool, unprot_kid: bool, prot_mode: int) -> bool:
    """
    PRE: 0 <= alg_i < 15 and 0 <= ser <= 3 and len(payload) <= 2 and 0 <= kid_mode <= 1 and 0 <= prot_mode <= 2
    POST: _
    """
    return _rt(alg_i, ser, payload, kid_mode, 0, 0, extra_typ, unprot_kid, prot_mode)


def roundtrip_keys(alg_i: int, ser: int, kid_mode: int, keyform: int, pick: int) -> bool:
    """
    PRE: 0 <= alg_i < 15 and 0 <= ser <= 3 and 0 <= kid_mode <= 1 and 1 <= keyform <= 2 and 0 <= pick <= 1
    POST: _
    """
    return _rt(alg_i, ser, b"pl", kid_mode, keyform, pick, False, False)


def roundtrip_text(alg_i: int, ser: int, payload: str, keyform: int, pick: int) -> bool:
    """
    PRE: 0 <= alg_i < 15 and 0 <= ser <= 3 and len(payload) <= 2 and keyform == 0 and pick == 0
    POST: _
    """
    return _rt(alg_i, ser, payload, 0, keyform, pick, False, False)


def roundtrip_b64(alg_i: int, flattened: bool, payload: str, b64: bool, kid_mode: int, keyform: int, pick: int) -> bool:
    """
    PRE: 0 <= alg_i < 15 and len(payload) <= 1 and kid_mode == 0 and 0 <= keyform <= 1 and pick == 0
    POST: _
    """
    rt.tick()
    ser = 1 if flattened else 0
    env, tok, obj, exp = run(alg_i, ser, payload, kid_mode, keyform, pick, b64, False, False)
    if tok is None:
        return False
    return judge(env, tok, obj, exp, alg_i, ser, payload, kid_mode, keyform, b64)


def detach(alg_i: int, ser: int, hmode: int, payload: bytes) -> bool:
    """
    PRE: 0 <= alg_i < 15 and 0 <= ser <= 2 and 0 <= hmode <= 2 and len(payload) <= 2
    POST: _
    """
    rt.tick()
    name = ALGS[alg_i]
    alg = name.split("/")[0]
    key = keys_for(name)[0]
    env = ice.Env(False)
    env.ecdsa_rs = (5, 7 << 200)
    with env.installed():
        try:
            if ser == 0:
                tok = jws.serialize_compact({"alg": alg}, payload, key, algorithms=[alg])
                det = jws.detach_content(tok)
                h, p, s = tok.split(".")
                h2, p2, s2 = det.split(".")
                if (h2, s2) != (h, s) or p2 != "":
                    return False
                again = ".".join([h2, p, s2])
                return jws.deserialize_compact(again, public_of(key), algorithms=[alg]).payload == payload
            # header placement: protected only / protected + an unprotected header / everything unprotected
            member = [{"protected": {"alg": alg}}, {"protected": {"alg": alg}, "header": {"kid": "the-kid"}}, {"header": {"alg": alg, "kid": "the-kid"}}][hmode]
            tok = jws.serialize_json(member if ser == 1 else [member], payload, key, algorithms=[alg])
            before = ice.jcopy(tok)
            det = jws.detach_content(tok)
            if tok != before:
                return False                # the original value must not be altered
            if "payload" in det and det["payload"]:
                return False
            rest = {k: v for k, v in det.items() if k != "payload"}
            if rest != {k: v for k, v in tok.items() if k != "payload"}:
                return False
            again = dict(det)
            again["payload"] = tok["payload"]
            back = jws.deserialize_json(again, public_of(key), algorithms=[alg])
            return back.payload == payload and back.members[0].headers() == {"alg": alg, **({"kid": "the-kid"} if hmode else {})}
        except ice.HarnessError:
            raise
        except Exception:  # noqa
            return False


def witness_fail(alg_i: int, payload: bytes) -> bool:
    """
    pre: 0 <= alg_i < 15 and len(payload) <= 1
    post: _
    """
    # reachability of the REJECTING side in the ideal world: verification with the other key of the set must fail
    name = ALGS[alg_i]
    alg = name.split("/")[0]
    ks = keys_for(name)
    env = ice.Env(False)
    env.ecdsa_rs = (5, 7)
    with env.installed():
        tok = jws.serialize_compact({"alg": alg}, payload, ks[0], algorithms=[alg])
        try:
            jws.deserialize_compact(tok, public_of(ks[1]), algorithms=[alg])
        except JoseError:
            return alg_i != 11
    return True


# ------------------------------------------------------------------ replay with real keys and primitives
def replay(func, call):
    import warnings
    warnings.simplefilter("ignore")
    from vlib import refjose as R
    from joserfc.jwk import JWKRegistry
    args = eval("(" + call + ",)")
    b64 = None
    extra_typ = unprot_kid = False
    kid_mode = prot_mode = 0
    if func == "roundtrip_layout":
        alg_i, ser, payload, kid_mode, extra_typ, unprot_kid, prot_mode = args
        keyform, pick, func = 0, 0, "roundtrip"
    elif func == "roundtrip_keys":
        alg_i, ser, kid_mode, keyform, pick = args
        payload, func = b"pl", "roundtrip"
    elif func == "roundtrip":
        alg_i, ser, payload, kid_mode, keyform, pick, extra_typ, unprot_kid = args
    elif func == "roundtrip_text":
        alg_i, ser, payload, keyform, pick = args
    elif func == "roundtrip_b64":
        alg_i, flattened, payload, b64, kid_mode, keyform, pick = args
        ser = 1 if flattened else 0
    elif func == "detach":
        alg_i, ser, hmode, payload = args
        keyform, pick = 0, 0
    else:
        return {"violated": None, "detail": "witness"}
    name = ALGS[alg_i]
    alg = name.split("/")[0]
    rk = {"oct64": "oct64", "RSA": "RSA2048"}.get(kind_of(name), kind_of(name))
    j1 = dict(R.test_key(rk), kid="k1")
    j2 = dict(R.test_key(rk), kid="k2")
    if j2["kty"] == "oct":
        j2["k"] = R.b64e(b"another-secret-another-secret-another-secret-another-secret-1234")
    j3 = dict(R.test_key("oct32" if j1["kty"] != "oct" else "P-256"), kid="k3")
    privs = [JWKRegistry.import_key(j) for j in (j1, j2, j3)]
    pubs = [JWKRegistry.import_key(R.public_jwk(j)) for j in (j1, j2, j3)]
    fails = []
    for trial_pick in ([0, 1] if keyform else [0]):
        hdr = {"alg": alg}
        if extra_typ:
            hdr["typ"] = "x"
        if b64 is not None:
            hdr["b64"], hdr["crit"] = b64, ["b64"]
        unprot = {}
        if kid_mode == 1:
            (unprot if (unprot_kid and ser != 0) else hdr)["kid"] = "k2"
        if prot_mode and ser != 0:
            unprot = {**hdr, **unprot}
            hdr = {} if prot_mode == 1 else None
        given = dict(hdr or {})
        if keyform == 0:
            skey, vkey = (privs[1], pubs[1]) if kid_mode == 1 else (privs[0], pubs[0])
        else:
            sset, vset = KeySet(privs), KeySet(pubs)
            skey, vkey = (sset, vset) if keyform == 1 else ((lambda o: sset), (lambda o: vset))
        orig_choice = random.choice
        random.choice = lambda seq, _i=trial_pick: seq[_i % len(seq)]
        try:
            use7797 = b64 is not None
            if func == "detach":
                member = [{"protected": hdr}, {"protected": hdr, "header": {"kid": "k1"}}, {"header": {**hdr, "kid": "k1"}}][hmode]
                tok = jws.serialize_compact(hdr, payload, skey, algorithms=[alg]) if ser == 0 else \
                    jws.serialize_json(member if ser == 1 else [member], payload, skey, algorithms=[alg])
                det = jws.detach_content(tok)
                if ser == 0:
                    h, p, s = tok.split(".")
                    ok = det == h + ".." + s and jws.deserialize_compact(".".join([h, p, s]), vkey, algorithms=[alg]).payload == payload
                else:
                    again = dict(det)
                    again["payload"] = tok["payload"]
                    ok = {k: v for k, v in det.items() if k != "payload"} == {k: v for k, v in tok.items() if k != "payload"} and \
                        not det.get("payload") and jws.deserialize_json(again, vkey, algorithms=[alg]).payload == payload
                if not ok:
                    fails.append("detach/re-attach failed")
                continue
            if ser == 0:
                tok = (s7797_compact if use7797 else jws.serialize_compact)(hdr, payload, skey, algorithms=[alg])
                pl = payload if (use7797 and b64 is False) else None
                obj = d7797_compact(tok, vkey, pl, algorithms=[alg]) if use7797 else jws.deserialize_compact(tok, vkey, algorithms=[alg])
                got_hdr = obj.protected
            else:
                member = {**({"protected": hdr} if hdr is not None else {}), **({"header": unprot} if unprot else {})}
                if ser == 1:
                    tok = (s7797_json if use7797 else jws.serialize_json)(member, payload, skey, algorithms=[alg])
                    obj = (d7797_json if use7797 else jws.deserialize_json)(tok, vkey, algorithms=[alg])
                else:
                    ms = [member] + ([{"protected": {"alg": alg, "typ": "second"}}] if ser == 3 else [])
                    tok = jws.serialize_json(ms, payload, skey, algorithms=[alg])
                    obj = jws.deserialize_json(tok, vkey, algorithms=[alg])
                got_hdr = obj.members[0].headers()
            pb = payload.encode() if isinstance(payload, str) else payload
            want = dict(given)
            want.update(unprot)
            if keyform and kid_mode == 0:
                want["kid"] = ["k1", "k2"][trial_pick]
            if obj.payload != pb:
                fails.append("payload %r != %r" % (obj.payload, pb))
            elif got_hdr != want:
                fails.append("header %r != %r" % (got_hdr, want))
            # independent verification of compact tokens with the exported public JWK
            if ser == 0 and not use7797:
                signer = j2 if (kid_mode == 1 or (keyform and trial_pick == 1)) else j1
                ok, _, p2 = R.compact_verify(tok.encode(), R.public_jwk(signer))
                if not ok:
                    fails.append("independent verifier rejects the produced token")
        except Exception as e:  # noqa
            fails.append("%s: %s" % (type(e).__name__, str(e)[:100]))
        finally:
            random.choice = orig_choice
    if fails:
        return {"violated": True, "key": "c03-" + func, "detail": "alg=%s ser=%s payload=%r keyform=%s kid_mode=%s b64=%s: %s" % (name, ser, payload, keyform, kid_mode, b64, "; ".join(fails[:3]))}
    return {"violated": False, "detail": "round trip fine on the real code"}
