"""C04 / C18 (+C08 producer side, C14 JWE side) harnesses: JWE encrypt-then-decrypt in the IDEAL environment, with every random
draw and key generation recorded.

Ideal primitives: AEAD / key wrap / RSA tables (decrypt succeeds iff identical operands were used to encrypt), KDFs are
opaque functions, ECDH is an opaque symmetric function of the two key identities, secrets/os.urandom/key generators return
fresh distinguishable values.  Symbolic: algorithm pair, zip, serialization, plaintext/AAD octets, apu/apv, header placement,
key form, recipients."""
from typing import Optional, List
import random
from joserfc import jwe
from joserfc.jwk import KeySet
from joserfc.jwe import JWERegistry, GeneralJSONEncryption, FlattenedJSONEncryption
from joserfc.errors import JoseError, ConflictAlgorithmError, InvalidEncryptionAlgorithmError
from joserfc.drafts.jwe_ecdh_1pu import register_ecdh_1pu
from joserfc.drafts.jwe_chacha20 import register_chaha20_poly1305
from vlib import ice, rt
from vlib.harness_loader import load as _load

register_ecdh_1pu()
register_chaha20_poly1305()
C16 = _load("c16_errors.py")

ALGS = ["RSA1_5", "RSA-OAEP", "RSA-OAEP-256", "A128KW", "A192KW", "A256KW", "dir", "ECDH-ES", "ECDH-ES+A128KW", "ECDH-ES+A192KW", "ECDH-ES+A256KW",
        "A128GCMKW", "A192GCMKW", "A256GCMKW", "PBES2-HS256+A128KW", "PBES2-HS384+A192KW", "PBES2-HS512+A256KW",
        "ECDH-1PU", "ECDH-1PU+A128KW", "ECDH-1PU+A192KW", "ECDH-1PU+A256KW"]
ENCS = [("A128CBC-HS256", 128, 256, "cbc"), ("A192CBC-HS384", 128, 384, "cbc"), ("A256CBC-HS512", 128, 512, "cbc"),
        ("A128GCM", 96, 128, "gcm"), ("A192GCM", 96, 192, "gcm"), ("A256GCM", 96, 256, "gcm"), ("C20P", 96, 256, "chacha"), ("XC20P", 192, 256, "chacha")]
CURVES = ["P-256", "P-384", "P-521", "secp256k1", "X25519", "X448"]
DIRECT = {"dir", "ECDH-ES", "ECDH-1PU"}
import os
CURVE_SET = (0, 1, 2, 3, 4, 5) if os.environ.get("VERIF_TIER") == "thorough" else (0, 4)     # quick: P-256 and X25519
ENC_SET = tuple(range(8)) if os.environ.get("VERIF_TIER") == "thorough" else (0, 3, 6, 7)         # quick: one enc per class + XC20P (its own IV size)
ALL_NAMES = ALGS + [e[0] for e in ENCS] + ["DEF"]


def key_for(alg, enc_bits, curve_i, kid="r"):
    if alg.startswith("RSA"):
        return ice.fake_key("RSA", kid=kid, private=True)
    if alg == "dir":
        return ice.fake_key("oct%d" % (enc_bits // 8), kid=kid)
    if alg.startswith("ECDH"):
        return ice.fake_key(CURVES[curve_i], kid=kid, private=True)
    if alg.startswith("PBES2"):
        return ice.fake_key("oct20", kid=kid)
    n = int(alg[1:4])
    return ice.fake_key("oct%d" % (n // 8), kid=kid)


def recipient_view(key):
    return key


_P = None


def patches():
    global _P
    if _P is None:
        _P = C16.patches()
    return _P


class Choice:
    def __init__(self, idx):
        self.idx, self.calls = idx, []

    def __call__(self, seq):
        self.calls.append(list(seq))
        return seq[self.idx % len(seq)]


def added_members(alg):
    if alg.startswith("ECDH"):
        return {"epk"}
    if "GCMKW" in alg:
        return {"iv", "tag"}
    if alg.startswith("PBES2"):
        return {"p2s", "p2c"}
    return set()


def one(env, alg_i, enc_i, curve_i, ser, has_zip, pt, aad, apu, hdr_where, keyset, pick, n_rec=1, alg2_i=None, kid_where=None, caller_epk=0):
    """encrypt then decrypt inside env; -> (outcome, info)"""
    alg = ALGS[alg_i]
    encname, ivbits, cekbits, kind = ENCS[enc_i]
    key = key_for(alg, cekbits, curve_i, "r1")
    need_sender = alg.startswith("ECDH-1PU") or (alg2_i is not None and ALGS[alg2_i].startswith("ECDH-1PU"))
    sender = ice.fake_key(CURVES[curve_i], kid="snd", private=True) if need_sender else None
    prot = {"enc": encname}
    if has_zip:
        prot["zip"] = "DEF"
    extra = {"apu": "APUSEG", "apv": "APVSEG"} if (apu and alg.startswith("ECDH")) else {}
    if caller_epk and alg.startswith("ECDH"):
        # the caller's own header already carries an "epk" JWK (1: public, 2: a PRIVATE JWK with "d"): whatever the library does with
        # it (replace it, refuse it), no private member may be serialized
        extra = dict(extra, epk=None)      # filled in below, inside the environment, so that its members are decodable there
    env.bind_b64(b"APUSEG", b"Alice")
    env.bind_b64(b"APVSEG", b"Bob")
    reg = JWERegistry(algorithms=ALL_NAMES)
    choice = Choice(pick)
    oct_alg = alg == "dir" or alg.startswith("PBES2") or (alg[0] == "A" and alg[1:4].isdigit())
    others = [ice.fake_key("RSA" if oct_alg else "oct16", kid="zz", private=True)]
    key2 = key_for(alg, cekbits, curve_i, "r2")
    kset = KeySet([key, key2] + others) if keyset else None
    given = {}
    with env.installed(patches() + [(random, "choice", choice)]):
        try:
            if "epk" in extra:
                # a key generated inside the environment (fake native key "gen0"): its exported members decode and import there
                extra["epk"] = key.__class__.generate_key(CURVES[curve_i], private=True).as_dict(private=(caller_epk == 2))
            if ser == 0:
                hdr = {"alg": alg, **prot, **extra}
                if kid_where is not None:
                    hdr["kid"] = "r2"
                given = ice.jcopy(hdr)
                tok = jwe.encrypt_compact(hdr, pt, kset or key, registry=reg, sender_key=sender)
            else:
                cls = FlattenedJSONEncryption if ser == 1 else GeneralJSONEncryption
                p, u, rh = dict(prot), {}, {}
                [p, u, rh][hdr_where]["alg"] = alg
                [p, u, rh][hdr_where].update(extra)
                if kid_where is not None:
                    [p, u, rh][kid_where]["kid"] = "r2"          # an explicit kid: protected / shared unprotected / per-recipient header
                given = {"protected": ice.jcopy(p), "unprotected": ice.jcopy(u), "header": ice.jcopy(rh)}
                obj = cls(p, pt, u or None, aad)
                obj.add_recipient(rh or None, None if keyset else key)
                if n_rec == 2:
                    alg2 = ALGS[alg2_i]
                    obj.add_recipient({"alg": alg2}, key_for(alg2, cekbits, curve_i, "s1"))
                tok = jwe.encrypt_json(obj, kset, registry=reg, sender_key=sender)
        except ice.HarnessError:
            raise
        except Exception as e:  # noqa
            return ("encrypt_failed", e), dict(alg=alg, enc=encname, kind=kind)
        ndraws_enc = len(env.draws)
        try:
            dkey = kset or key
            if ser == 0:
                out = jwe.decrypt_compact(tok, dkey, registry=reg, sender_key=sender)
            else:
                if n_rec == 2:
                    k2 = key_for(ALGS[alg2_i], cekbits, curve_i, "s1")
                    first = [True]

                    def dkey(recipient, _k1=key, _k2=k2):
                        # recipients carry no kid here (keys were attached directly): resolve by position
                        if first[0]:
                            first[0] = False
                            return _k1
                        return _k2
                out = jwe.decrypt_json(tok, dkey, registry=reg, sender_key=sender)
        except ice.HarnessError:
            raise
        except Exception as e:  # noqa
            return ("decrypt_failed", e), dict(alg=alg, enc=encname, kind=kind, tok=tok)
    return ("ok", out), dict(alg=alg, enc=encname, kind=kind, tok=tok, given=given, key=key if kid_where is None else key2, choice=choice, ndraws_enc=ndraws_enc,
                             ivbits=ivbits, cekbits=cekbits)


def forbidden(alg, kind, n_rec, alg2=None):
    if n_rec > 1 and (alg in DIRECT or alg2 in DIRECT):
        return ConflictAlgorithmError
    if alg.startswith("ECDH-1PU+") and kind != "cbc":
        return InvalidEncryptionAlgorithmError
    if alg2 and alg2.startswith("ECDH-1PU+") and kind != "cbc":
        return InvalidEncryptionAlgorithmError
    return None


def _roundtrip(alg_i, enc_i, curve_i, ser, has_zip, pt, aad, apu, hdr_where, keyset, pick):
    rt.tick()
    env = ice.Env(False)
    (st, out), info = one(env, alg_i, enc_i, curve_i, ser, has_zip, pt, aad if ser else None, apu, hdr_where if ser else 0, keyset, pick)
    fb = forbidden(info["alg"], info["kind"], 1)
    if fb is not None:
        return st == "encrypt_failed" and isinstance(out, fb)
    if st != "ok":
        return rt.why('_roundtrip#1')
    if out.plaintext != pt:
        return rt.why('_roundtrip#2')
    alg = info["alg"]
    add = added_members(alg)
    kid_added = {"kid"} if keyset else set()
    if ser == 0:
        got = dict(out.protected)
        if {k: v for k, v in got.items() if k not in add | kid_added} != info["given"]:
            return rt.why('_roundtrip#3')
        if not add <= set(got) or (keyset and got.get("kid") not in ("r1", "r2")):
            return rt.why('_roundtrip#4')
    else:
        g = info["given"]
        if dict(out.protected) != g["protected"] and {k: v for k, v in out.protected.items() if k not in add} != g["protected"]:
            return rt.why('_roundtrip#5')
        if (out.unprotected or {}) != g["unprotected"]:
            return rt.why('_roundtrip#6')
        rh = dict(out.recipients[0].header or {})
        if {k: v for k, v in rh.items() if k not in add | kid_added} != g["header"]:
            return rt.why('_roundtrip#7')
        merged = out.recipients[0].headers()
        if not add <= set(merged):
            return rt.why('_roundtrip#8')
        if aad is not None and out.aad != aad and aad:
            return rt.why('_roundtrip#9')
    if keyset:
        ch = info["choice"]
        if len(ch.calls) != 1 or [k.kid for k in ch.calls[0]] != ["r1", "r2"]:
            return rt.why('_roundtrip#10')
    # C12: the epk header and everything else that was encoded is free of private material
    merged = out.recipients[0].headers() if ser else out.protected
    if "epk" in merged and any(m in merged["epk"] for m in ice.PRIVATE_NAMES):
        return rt.why('_roundtrip#11')
    if not keyset and not conformance(env, info, ser, pt, aad if ser else None, has_zip, apu):
        return rt.why('_roundtrip#12')
    key = info["key"]
    if ice.leak_scan(env, info["tok"], [key.raw_value] if key.key_type == "oct" else [], ["r1", "r2", "zz", "snd"] + ["gen%d" % i for i in range(8)]):
        return rt.why('_roundtrip#13')
    return fresh_ok(env, info, 1)


RSA_PAD = {"RSA1_5": ("PKCS1v15",), "RSA-OAEP": ("OAEP", "sha1", "sha1", None), "RSA-OAEP-256": ("OAEP", "sha256", "sha256", None)}
PBES2 = {"PBES2-HS256+A128KW": ("sha256", 16), "PBES2-HS384+A192KW": ("sha384", 24), "PBES2-HS512+A256KW": ("sha512", 32)}
HASH_OF_ENC = {"A128CBC-HS256": "sha256", "A192CBC-HS384": "sha384", "A256CBC-HS512": "sha512"}


def lp(b):
    return len(b).to_bytes(4, "big") + b


def conformance(env, info, ser, pt, aad, has_zip, apu):
    """C08: the operands handed to the primitives while PRODUCING are those of RFC 7516/7518 (+ drafts)"""
    alg, encname, kind = info["alg"], info["enc"], info["kind"]
    tok = info["tok"]
    key = info["key"]
    n_draws = info["ndraws_enc"]
    calls = [c for c in env.calls]
    # ---- content encryption operands
    if ser == 0:
        segs = tok.split(".")
        pseg, ekseg, ivseg, ctseg, tagseg = [x.encode() for x in segs]
        want_aad = pseg
    else:
        pseg = tok["protected"].encode()
        want_aad = pseg + ((b"." + tok["aad"].encode()) if aad else b"")
        if bool(aad) != ("aad" in tok):
            return rt.why('_roundtrip#14')
        if aad and env.b64decode(tok["aad"].encode()) != aad:
            return rt.why('_roundtrip#15')
        ivseg, ctseg, tagseg = tok["iv"].encode(), tok["ciphertext"].encode(), tok["tag"].encode()
    # the protected segment is the b64 of the compact, ASCII JSON of the protected header
    ptext = env.b64decode(pseg)
    dumped = [i for i, (v, t) in enumerate(env.js_made) if t.encode() == ptext]
    if len(dumped) != 1:
        return rt.why('_roundtrip#16')
    kw = env.dumps_kwargs
    if not any(k.get("separators") == (",", ":") and k.get("ensure_ascii", True) is True for k in kw):
        return rt.why('_roundtrip#17')
    enc_calls = [c for c in calls if c["kind"] in ("gcm_encrypt", "cbc_encrypt", "chacha_encrypt") and not (c["kind"] == "gcm_encrypt" and c["aad"] is None)][:1]
    if len(enc_calls) != 1:
        return rt.why('_roundtrip#18')
    e = enc_calls[0]
    body = pt
    if has_zip:
        zs = env.of("zcompress")
        if len(zs) != 1 or zs[0]["data"] != pt:
            return rt.why('_roundtrip#19')
        body = zs[0]["body"]                 # raw DEFLATE: zlib header (2) and Adler-32 (4) stripped
    want_pt = ice.pkcs7(body) if e["kind"] == "cbc_encrypt" else body       # RFC 7518 5.2.2.1: PKCS #7 padding before AES-CBC
    if e["pt"] != want_pt or env.b64decode(ivseg) != e["iv"] or env.b64decode(ctseg) != e["ct"]:
        return rt.why('_roundtrip#20')
    cek = e["key"] if kind != "cbc" else None
    if kind == "cbc":
        macs = [c for c in calls if c["kind"] == "hmac"]
        if len(macs) < 1:
            return rt.why('_roundtrip#21')
        m = macs[0]
        n = info["cekbits"] // 16
        al = (8 * len(want_aad)).to_bytes(8, "big")
        if m["hash"] != HASH_OF_ENC[encname] or m["msg"] != want_aad + e["iv"] + e["ct"] + al:
            return rt.why('_roundtrip#22')
        tag = env.b64decode(tagseg)
        if tag != ice.mac_tag(m["hash"], m["key"], m["msg"])[:n]:
            return rt.why('_roundtrip#23')
        # key split: MAC key first, encryption key second, both halves of ONE cek
        mk, ek_ = m["key"], e["key"]
        if len(mk) != n or len(ek_) != n:
            return rt.why('_roundtrip#24')
        if isinstance(mk, bytes) and isinstance(ek_, bytes):
            cek = mk + ek_
        else:
            if getattr(mk, "cut", None) is None or mk.cut[1:] != (0, n) or ek_.cut[1:] != (n, 2 * n) or mk.parts != ek_.parts:
                return rt.why('_roundtrip#25')
            cek = None
    else:
        if e["aad"] != want_aad or env.b64decode(tagseg) != e["tag"]:
            return rt.why('_roundtrip#26')
    # ---- key management operands
    hdr = {}
    if ser == 0:
        hdr = env.js_made[dumped[0]][0]
        ek = env.b64decode(ekseg) if ekseg else b""
    else:
        hdr = dict(env.js_made[dumped[0]][0])
        hdr.update(tok.get("unprotected") or {})
        r0 = tok["recipients"][0] if "recipients" in tok else tok
        hdr.update(r0.get("header") or {})
        ek = env.b64decode(r0["encrypted_key"].encode()) if r0.get("encrypted_key") else b""
    if alg in DIRECT and ek:
        return rt.why('_roundtrip#27')
    if alg == "dir":
        return cek is None or cek == key.raw_value
    if alg in RSA_PAD:
        rs = env.of("rsa_encrypt")
        return len(rs) == 1 and rs[0]["padding"] == RSA_PAD[alg] and rs[0]["out"] == ek and (cek is None or rs[0]["pt"] == cek)
    if alg[0] == "A" and alg.endswith("GCMKW"):
        ks = [c for c in calls if c["kind"] == "gcm_encrypt" and c["aad"] is None]
        if len(ks) != 1 or ks[0]["key"] != key.raw_value or ks[0]["ct"] != ek or (cek is not None and ks[0]["pt"] != cek):
            return rt.why('_roundtrip#28')
        return len(ks[0]["iv"]) == 12 and env.b64decode(hdr["iv"].encode()) == ks[0]["iv"] and env.b64decode(hdr["tag"].encode()) == ks[0]["tag"]
    ws = env.of("wrap")
    if alg[0] == "A" and alg.endswith("KW"):
        return len(ws) == 1 and ws[0]["key"] == key.raw_value and ws[0]["out"] == ek and (cek is None or ws[0]["cek"] == cek)
    if alg in PBES2:
        ps = env.of("pbkdf2")
        h, n = PBES2[alg]
        if len(ps) < 1 or len(ws) != 1:         # (the consumer side of the round trip derives the key a second time)
            return rt.why('_roundtrip#29')
        p = ps[0]
        salt_in = env.b64decode(hdr["p2s"].encode())
        return p["hash"] == h and p["length"] == n and p["salt"] == alg.encode() + b"\x00" + salt_in and p["iterations"] == hdr["p2c"] and \
            p["key"] == key.raw_value and ws[0]["key"] == p["out"] and ws[0]["out"] == ek
    # ECDH-ES / ECDH-1PU
    ks = env.of("concatkdf")
    xs = [x for x in env.of("exchange")][: (2 if alg.startswith("ECDH-1PU") else 1)]
    if len(ks) < 1:
        return rt.why('_roundtrip#30')
    k = ks[0]
    gen = [d for d in env.draws[:n_draws] if d["source"] in ("ec.generate_private_key", "okp.generate")]
    if len(gen) != 1:
        return rt.why('_roundtrip#31')
    rk = key.kid or "r1"                          # (the recipient's key: r1, or r2 when an explicit kid named it)
    ze = ice.Opaque("ecdh", frozenset([gen[0]["value"], rk]))
    if alg.startswith("ECDH-1PU"):
        zs = ice.Opaque("ecdh", frozenset(["snd", rk]))
        want_z = ice.Opaque("cat", ze, zs)                      # Z = Ze || Zs
    else:
        want_z = ze
    direct = "+" not in alg
    name = encname if direct else alg
    bits = info["cekbits"] if direct else int(alg.split("+A")[1][:3])
    pu = b"Alice" if apu else b""
    pv = b"Bob" if apu else b""
    info_bytes = lp(name.encode()) + lp(pu) + lp(pv) + bits.to_bytes(4, "big")
    if alg.startswith("ECDH-1PU") and not direct:
        tagv = env.b64decode(tagseg)
        info_bytes += lp(tagv.octets(env) if isinstance(tagv, ice.Sized) else bytes(tagv))
    if k["hash"] != "sha256" or k["length"] != bits // 8 or k["z"] != want_z or k["otherinfo"] != info_bytes:
        return rt.why('_roundtrip#32')
    epk = hdr.get("epk")
    if not isinstance(epk, dict) or epk.get("crv") != key.curve_name:
        return rt.why('_roundtrip#33')
    if direct:
        return True
    return len(ws) == 1 and ws[0]["key"] == k["out"] and ws[0]["out"] == ek


def fresh_ok(env, info, n_messages):
    """C18 conditions over the draws recorded while encrypting"""
    draws = env.draws[:info["ndraws_enc"]]
    alg, kind = info["alg"], info["kind"]
    used = []
    encs = env.of("gcm_encrypt") + env.of("cbc_encrypt") + env.of("chacha_encrypt")
    content = [e for e in encs if not (e["kind"] == "gcm_encrypt" and e["aad"] is None)]
    kw = [e for e in encs if e["kind"] == "gcm_encrypt" and e["aad"] is None]
    if len(content) != n_messages:
        return False
    for e in content:
        ivd = [d for d in draws if d["value"] == e["iv"] and d["source"] in ("secrets", "os.urandom")]
        if len(ivd) != 1 or ivd[0]["n"] * 8 != info["ivbits"]:
            return False
        used.append(id(ivd[0]))
    for e in kw:
        ivd = [d for d in draws if d["value"] == e["iv"] and d["source"] in ("secrets", "os.urandom")]
        if len(ivd) != 1 or ivd[0]["n"] != 12:
            return False
        used.append(id(ivd[0]))
    if alg.startswith("PBES2"):
        ps, seen = [], []
        for p in env.of("pbkdf2"):           # (the consumer side of each round trip derives the same key a second time)
            if p["salt"] not in seen:
                seen.append(p["salt"])
                ps.append(p)
        if len(ps) != n_messages:
            return False                     # one distinct salt per message
        for p in ps:
            salt_in = p["salt"][len(alg) + 1:]
            sd = [d for d in draws if d["value"] == salt_in]
            if len(sd) != 1 or sd[0]["n"] < 8 or id(sd[0]) in used or p["iterations"] < 1000:
                return False
            used.append(id(sd[0]))
    if alg not in DIRECT:
        # the CEK is a fresh draw of exactly the enc's size
        cekd = [d for d in draws if d["n"] is not None and d["source"] in ("secrets", "os.urandom") and d["n"] * 8 == info["cekbits"] and id(d) not in used]
        if len(cekd) < n_messages:
            return False
        used += [id(d) for d in cekd[:n_messages]]
    if alg.startswith("ECDH"):
        gens = [d for d in draws if d["source"] in ("ec.generate_private_key", "okp.generate")]
        if len(gens) != n_messages or any(g["curve"] != info["key"].curve_name for g in gens):
            return False
        if len({g["value"] for g in gens}) != len(gens):
            return False
    return len(set(used)) == len(used)


def roundtrip(alg_i: int, enc_i: int, curve_i: int, ser: int, has_zip: bool, pt: bytes, aad: Optional[bytes], apu: bool, hdr_where: int, keyset: bool, pick: int) -> bool:
    """
    PRE: 0 <= alg_i < 21 and 0 <= enc_i < 8 and 0 <= curve_i < 6 and 0 <= ser <= 2 and len(pt) <= 2 and (aad is None or len(aad) <= 2)
    PRE: 0 <= hdr_where <= 2 and 0 <= pick <= 1
    POST: _
    """
    return _roundtrip(alg_i, enc_i, curve_i, ser, has_zip, pt, aad, apu, hdr_where, keyset, pick)


def roundtrip_layout(alg_i: int, enc_i: int, curve_i: int, ser: int, pt: bytes, aad: Optional[bytes], hdr_where: int) -> bool:
    """
    PRE: 0 <= alg_i < 21 and 0 <= enc_i < 8 and curve_i in CURVE_SET and 0 <= ser <= 2 and len(pt) <= 1 and (aad is None or len(aad) <= 1)
    PRE: 0 <= hdr_where <= 2
    POST: _
    """
    return _roundtrip(alg_i, enc_i, curve_i, ser, False, pt, aad, False, hdr_where, False, 0)


def roundtrip_options(alg_i: int, enc_i: int, curve_i: int, ser: int, has_zip: bool, apu: bool, keyset: bool, pick: int) -> bool:
    """
    PRE: 0 <= alg_i < 21 and 0 <= enc_i < 8 and curve_i in CURVE_SET and 0 <= ser <= 2 and 0 <= pick <= 1
    POST: _
    """
    return _roundtrip(alg_i, enc_i, curve_i, ser, has_zip, b"pt", b"ad" if ser else None, apu, 0, keyset, pick)


def caller_epk(alg_i: int, enc_i: int, curve_i: int, ser: int, hdr_where: int, priv: bool) -> bool:
    """
    PRE: (7 <= alg_i <= 10 or 17 <= alg_i <= 20) and enc_i in (0, 3) and curve_i in CURVE_SET and 0 <= ser <= 2 and 0 <= hdr_where <= 2
    PRE: hdr_where == (2 if ser else 0)
    POST: _
    """
    # (the caller's "epk" sits where the library writes its own: the compact header / the per-recipient header.  A private JWK the
    # caller puts under "epk" in a SHARED header of a JSON serialization is serialized as given by the unchanged tree, next to the fresh
    # per-recipient epk; that key is never used for the agreement and is the caller's own data: outside the claim, see DESIGN C12)
    # C12: the header the caller passes in already holds an "epk" JWK, public or private.  The produced token (protected, shared and
    # per-recipient headers, every encoded segment) carries no private member and no private octets; producing may also be refused.
    rt.tick()
    env = ice.Env(False)
    pt = b"epk-plaintext"
    (st, out), info = one(env, alg_i, enc_i, curve_i, ser, False, pt, None, False, hdr_where, False, 0, caller_epk=2 if priv else 1)
    if st == "encrypt_failed":
        return isinstance(out, (JoseError, ValueError))
    if st != "ok" or out.plaintext != pt:
        return rt.why("caller_epk#roundtrip")
    merged = out.recipients[0].headers() if ser else out.protected
    if "epk" not in merged or any(m in merged["epk"] for m in ice.PRIVATE_NAMES):
        return rt.why("caller_epk#private-member")
    if ice.leak_scan(env, info["tok"], [], ["r1", "r2", "zz", "snd", "cep"] + ["gen%d" % i for i in range(8)]):
        return rt.why("caller_epk#leak")
    return True


def two_recipients(alg_i: int, alg2_i: int, enc_i: int, pt: bytes, aad: Optional[bytes]) -> bool:
    """
    PRE: 0 <= alg_i < 21 and 0 <= alg2_i < 21 and enc_i in (0, 3) and len(pt) == 0 and aad is None
    POST: _
    """
    rt.tick()
    env = ice.Env(False)
    (st, out), info = one(env, alg_i, enc_i, 0, 2, False, pt, aad, False, 2, False, 0, 2, alg2_i)
    fb = forbidden(info["alg"], info["kind"], 2, ALGS[alg2_i])
    if fb is not None:
        return st == "encrypt_failed" and isinstance(out, (fb, ConflictAlgorithmError, InvalidEncryptionAlgorithmError))
    if st != "ok":
        return False
    if out.plaintext != pt or len(out.recipients) != 2:
        return False
    # every ECDH recipient got its own fresh ephemeral key
    gens = [d for d in env.draws if d["source"] in ("ec.generate_private_key", "okp.generate")]
    n_ecdh = sum(1 for a in (info["alg"], ALGS[alg2_i]) if a.startswith("ECDH"))
    return len(gens) == n_ecdh and len({g["value"] for g in gens}) == n_ecdh


def explicit_kid(alg_i: int, enc_i: int, curve_i: int, ser: int, kid_where: int, hdr_where: int) -> bool:
    """
    PRE: 0 <= alg_i < 21 and enc_i in (0, 3) and curve_i in CURVE_SET and 0 <= ser <= 2 and 0 <= kid_where <= 2 and 0 <= hdr_where <= 2
    PRE: ser != 0 or (kid_where == 0 and hdr_where == 0)
    POST: _
    """
    # C14: a kid in the protected, shared unprotected or per-recipient header names the key of the set that is used to encrypt AND to
    # decrypt -- exactly that key reaches the key-management primitive, no key is picked at random
    rt.tick()
    env = ice.Env(False)
    pt = b"kid-plaintext"
    (st, out), info = one(env, alg_i, enc_i, curve_i, ser, False, pt, None, False, hdr_where, True, 0, kid_where=kid_where)
    fb = forbidden(info["alg"], info["kind"], 1)
    if fb is not None:
        return st == "encrypt_failed" and isinstance(out, fb)
    if st != "ok" or out.plaintext != pt:
        return rt.why("explicit_kid#roundtrip")
    if info["choice"].calls:
        return rt.why("explicit_kid#random")
    merged = out.recipients[0].headers() if ser else out.protected
    if merged.get("kid") != "r2":
        return rt.why("explicit_kid#kid")
    return conformance(env, info, ser, pt, None, False, False)


def shared_alg_recipients(alg_i: int, enc_i: int, curve_i: int, n: int, which: int) -> bool:
    """
    PRE: 0 <= alg_i < 17 and enc_i in (0, 3) and curve_i in CURVE_SET and 2 <= n <= 3 and 0 <= which < n
    POST: _
    """
    # general JSON whose recipients carry NO header of their own: "alg" sits in the protected header and is shared; every recipient
    # (own key each) must be able to decrypt -- whatever the algorithm generates per recipient (epk, iv/tag, p2s/p2c) must not collide
    rt.tick()
    env = ice.Env(False)
    alg = ALGS[alg_i]
    encname, ivbits, cekbits, kind = ENCS[enc_i]
    keys = [key_for(alg, cekbits, curve_i, "s%d" % i) for i in range(n)]
    reg = JWERegistry(algorithms=ALL_NAMES, verify_all_recipients=False)
    pt = b"shared-alg-plaintext"
    with env.installed(patches()):
        try:
            obj = GeneralJSONEncryption({"enc": encname, "alg": alg}, pt)
            for k in keys:
                obj.add_recipient(None, k)
            tok = jwe.encrypt_json(obj, None, registry=reg)
        except ice.HarnessError:
            raise
        except Exception as e:  # noqa
            return alg in DIRECT and isinstance(e, ConflictAlgorithmError)
        if alg in DIRECT:
            return False
        try:
            out = jwe.decrypt_json(tok, keys[which], registry=reg)
        except ice.HarnessError:
            raise
        except Exception:  # noqa
            return rt.why("shared_alg_recipients#decrypt")
    return out.plaintext == pt


def replay_explicit_kid(alg_i, enc_i, curve_i, ser, kid_where, hdr_where):
    import warnings
    warnings.simplefilter("ignore")
    from vlib import refjose as R
    from joserfc.jwk import JWKRegistry
    alg = ALGS[alg_i]
    encname, ivbits, cekbits, kind = ENCS[enc_i]
    if alg.startswith("ECDH-1PU"):
        return {"violated": None, "detail": "no concrete replay with a sender key"}
    jks = []
    for i in range(2):
        if alg.startswith("RSA"):
            j = R.test_key("RSA2048") if i == 0 else R.test_key("RSA2049")
        elif alg.startswith("ECDH"):
            j = R.test_key(CURVES[curve_i]) if i == 0 else R._ephemeral(CURVES[curve_i])
        elif alg.startswith("PBES2"):
            j = {"kty": "oct", "k": R.b64e(b"password-%d-password-xx" % i)}
        else:
            nbytes = cekbits // 8 if alg == "dir" else int(alg[1:4]) // 8
            j = {"kty": "oct", "k": R.b64e(bytes((i * 17 + b) % 256 for b in range(nbytes)))}
        jks.append(dict(j, kid="r%d" % (i + 1)))
    other = dict(R.test_key("oct16" if jks[0]["kty"] != "oct" else "P-256"), kid="zz")
    keys = [JWKRegistry.import_key(j) for j in jks + [other]]
    reg = JWERegistry(algorithms=ALL_NAMES)
    pt = b"kid-plaintext"
    try:
        if ser == 0:
            tok = jwe.encrypt_compact({"alg": alg, "enc": encname, "kid": "r2"}, pt, KeySet(keys), registry=reg)
        else:
            p, u, rh = {"enc": encname}, {}, {}
            [p, u, rh][hdr_where]["alg"] = alg
            [p, u, rh][kid_where]["kid"] = "r2"
            obj = (FlattenedJSONEncryption if ser == 1 else GeneralJSONEncryption)(p, pt, u or None)
            obj.add_recipient(rh or None)
            tok = jwe.encrypt_json(obj, KeySet(keys), registry=reg)
    except Exception as e:  # noqa
        return {"violated": True, "key": "c14-explicit-kid", "detail": "encryption with kid=r2 (%s header) and a key set failed: %s %s" % (["protected", "unprotected", "per-recipient"][kid_where], type(e).__name__, e)}
    res = {}
    for label, k in (("key set", KeySet(keys)), ("only r2", keys[1]), ("only r1", keys[0])):
        try:
            out = jwe.decrypt_compact(tok, k, registry=reg) if ser == 0 else jwe.decrypt_json(tok, k, registry=reg)
            res[label] = out.plaintext == pt
        except Exception as e:  # noqa
            res[label] = type(e).__name__
    bad = res["key set"] is not True or res["only r2"] is not True or res["only r1"] is True
    return {"violated": bad, "key": "c14-explicit-kid", "detail": "alg=%s %s kid=r2 in the %s header: decryption with %r" %
            (alg, ["compact", "flattened", "general"][ser], ["protected", "unprotected", "per-recipient"][kid_where], res)}


def replay_shared_alg(alg_i, enc_i, curve_i, n, which):
    import warnings
    warnings.simplefilter("ignore")
    from vlib import refjose as R
    from joserfc.jwk import JWKRegistry
    alg = ALGS[alg_i]
    encname, ivbits, cekbits, kind = ENCS[enc_i]
    jks = []
    for i in range(n):
        if alg.startswith("RSA"):
            j = R.test_key("RSA2048") if i == 0 else R.test_key("RSA2049")
        elif alg.startswith("ECDH"):
            j = R.test_key(CURVES[curve_i]) if i == 0 else R._ephemeral(CURVES[curve_i])
            if i == 2:
                j = dict(R.test_key(CURVES[curve_i]))           # (third recipient: the first key again under another name)
        elif alg.startswith("PBES2"):
            j = {"kty": "oct", "k": R.b64e(b"password-%d-password-xx" % i)}
        else:
            nbytes = cekbits // 8 if alg == "dir" else int(alg[1:4]) // 8
            j = {"kty": "oct", "k": R.b64e(bytes((i * 17 + b) % 256 for b in range(nbytes)))}
        jks.append(dict(j, kid="s%d" % i))
    keys = [JWKRegistry.import_key(j) for j in jks]
    reg = JWERegistry(algorithms=ALL_NAMES, verify_all_recipients=False)
    pt = b"shared-alg-plaintext"
    obj = GeneralJSONEncryption({"enc": encname, "alg": alg}, pt)
    for k in keys:
        obj.add_recipient(None, k)
    try:
        tok = jwe.encrypt_json(obj, None, registry=reg)
    except Exception as e:  # noqa
        return {"violated": alg not in DIRECT, "key": "c04-shared-alg", "detail": "encryption of %d header-less recipients sharing alg=%s failed: %r" % (n, alg, e)}
    res = []
    for i, k in enumerate(keys):
        try:
            res.append(jwe.decrypt_json(tok, k, registry=reg).plaintext == pt)
        except Exception as e:  # noqa
            res.append("%s" % type(e).__name__)
    return {"violated": res[which] is not True, "key": "c04-shared-alg", "detail": "general JSON, %d recipients without own header, alg=%s in the protected header: "
            "decryption per recipient -> %r (protected header of the token: %r)" % (n, alg, res, sorted(R.json.loads(R.b64d(tok["protected"])))) }


def single_key_mixed(alg_i: int, alg2_i: int, curve2_i: int, which: int) -> bool:
    """
    PRE: 0 <= alg_i < 17 and 0 <= alg2_i < 17 and 0 <= curve2_i < 6 and 0 <= which <= 1
    POST: _
    """
    # general JSON for two recipients of mixed algorithms / key types / curves; ONE of them decrypts with only its own key
    # (registry with verify_all_recipients=False): the other recipient's entry must be skipped, whatever it contains
    rt.tick()
    env = ice.Env(False)
    alg, alg2 = ALGS[alg_i], ALGS[alg2_i]
    encname, ivbits, cekbits, kind = ENCS[0]
    keys = [key_for(alg, cekbits, 0, "s0"), key_for(alg2, cekbits, curve2_i, "s1")]
    reg = JWERegistry(algorithms=ALL_NAMES, verify_all_recipients=False)
    pt = b"two-recipient-plaintext"
    with env.installed(patches()):
        try:
            obj = GeneralJSONEncryption({"enc": encname}, pt)
            obj.add_recipient({"alg": alg}, keys[0])
            obj.add_recipient({"alg": alg2}, keys[1])
            tok = jwe.encrypt_json(obj, None, registry=reg)
        except ice.HarnessError:
            raise
        except Exception as e:  # noqa
            return forbidden(alg, kind, 2, alg2) is not None and isinstance(e, (ConflictAlgorithmError, InvalidEncryptionAlgorithmError))
        if forbidden(alg, kind, 2, alg2) is not None:
            return False
        try:
            out = jwe.decrypt_json(tok, keys[which], registry=reg)
        except ice.HarnessError:
            raise
        except Exception:  # noqa
            return rt.why("single_key_mixed#decrypt")
    return out.plaintext == pt


def replay_single_key_mixed(alg_i, alg2_i, curve2_i, which):
    import warnings
    warnings.simplefilter("ignore")
    from vlib import refjose as R
    from joserfc.jwk import JWKRegistry
    alg, alg2 = ALGS[alg_i], ALGS[alg2_i]
    encname, ivbits, cekbits, kind = ENCS[0]

    def real_key(a, crv, kid):
        if a.startswith("RSA"):
            j = R.test_key("RSA2048")
        elif a == "dir":
            j = R.test_key("oct%d" % (cekbits // 8))
        elif a.startswith("ECDH"):
            j = R.test_key(crv)
        elif a.startswith("PBES2"):
            j = R.test_key("oct24")
        else:
            j = R.test_key("oct%d" % (int(a[1:4]) // 8))
        return dict(j, kid=kid)
    jks = [real_key(alg, "P-256", "s0"), real_key(alg2, CURVES[curve2_i], "s1")]
    keys = [JWKRegistry.import_key(j) for j in jks]
    reg = JWERegistry(algorithms=ALL_NAMES, verify_all_recipients=False)
    pt = b"two-recipient-plaintext"
    obj = GeneralJSONEncryption({"enc": encname}, pt)
    obj.add_recipient({"alg": alg}, keys[0])
    obj.add_recipient({"alg": alg2}, keys[1])
    try:
        tok = jwe.encrypt_json(obj, None, registry=reg)
    except Exception as e:  # noqa
        ok = forbidden(alg, kind, 2, alg2) is not None
        return {"violated": not ok, "key": "c04-single-key", "detail": "encryption for (%s, %s) failed: %r" % (alg, alg2, e)}
    # the independent implementation decrypts the token with that recipient's key alone
    try:
        def only_mine(merged):
            # (the independent implementation tries its key only on the entry whose algorithm / key type it can serve)
            want = alg if which == 0 else alg2
            return jks[which] if merged.get("alg") == want and (merged.get("epk", {}).get("kty", jks[which]["kty"]) == jks[which]["kty"]) else None
        ref = R.json_decrypt(tok, only_mine, any_recipient=True)[0]
    except Exception as e:  # noqa
        ref = "reference failed: %r" % (e,)
    try:
        out = jwe.decrypt_json(tok, keys[which], registry=reg)
        bad = out.plaintext != pt
        got = out.plaintext
    except Exception as e:  # noqa
        bad, got = True, "%s: %s" % (type(e).__name__, e)
    return {"violated": bool(bad and ref == pt), "key": "c04-single-key", "detail": "general JSON for recipients (%s, %s key) and (%s, %s key); recipient %d decrypts with "
            "its own key and verify_all_recipients=False -> %r (independent implementation: %r)" % (alg, jks[0]["kty"], alg2, jks[1].get("crv", jks[1]["kty"]), which, got, ref)}


def two_messages(alg_i: int, enc_i: int, curve_i: int, ser: int) -> bool:
    """
    PRE: 0 <= alg_i < 21 and enc_i in ENC_SET and curve_i in CURVE_SET and 0 <= ser <= 2
    POST: _
    """
    rt.tick()
    env = ice.Env(False)
    infos = []
    for i in range(2):
        n0 = len(env.draws)
        (st, out), info = one(env, alg_i, enc_i, curve_i, ser, False, b"same", None, False, 0, False, 0)
        if forbidden(info["alg"], info["kind"], 1) is not None:
            return st == "encrypt_failed"
        if st != "ok":
            return False
        # only what was drawn DURING this call counts for this call
        draws_call = env.draws[n0:info["ndraws_enc"]]
        infos.append((info, draws_call))
    # freshness: nothing drawn in call 1 is used in call 2
    v1 = {repr(d["value"]) for d in infos[0][1]}
    v2 = {repr(d["value"]) for d in infos[1][1]}
    if v1 & v2 or not v1 or not v2:
        return False
    contents = [e for e in env.of("gcm_encrypt") + env.of("cbc_encrypt") + env.of("chacha_encrypt") if not (e["kind"] == "gcm_encrypt" and e["aad"] is None)]
    if len(contents) != 2 or contents[0]["iv"] == contents[1]["iv"]:
        return False
    for e, (info, dc) in zip(contents, infos):
        if not any(d["value"] == e["iv"] and d["n"] * 8 == info["ivbits"] for d in dc if d["n"] is not None):
            return False
        if info["alg"] not in DIRECT and contents[0]["key"] == contents[1]["key"] and e is contents[1]:
            return False
    # sizes and sources over both calls: content IV, CEK, key-wrap IV (96 bit), PBES2 salt input (>= 8 octets, p2c >= 1000), ephemeral keys
    return fresh_ok(env, infos[1][0], 2)


def witness(alg_i: int, enc_i: int, curve_i: int, ser: int, has_zip: bool, pt: bytes) -> bool:
    """
    pre: 0 <= alg_i < 21 and 0 <= enc_i < 8 and 0 <= curve_i < 6 and 0 <= ser <= 2 and len(pt) <= 1
    post: _
    """
    env = ice.Env(False)
    (st, out), info = one(env, alg_i, enc_i, curve_i, ser, has_zip, pt, None, False, 0, False, 0)
    return not (st == "ok" and alg_i == 20 and enc_i == 2 and ser == 2 and has_zip)


# ------------------------------------------------------------------ replay with real keys and primitives
def replay_caller_epk(alg_i, enc_i, curve_i, ser, hdr_where, priv):
    """real keys: the caller's header already carries an "epk" JWK (private if priv); every header of the produced token is decoded
    and searched for private members and for the octets of the caller key's d"""
    import warnings
    warnings.simplefilter("ignore")
    from vlib import refjose as R
    from joserfc.jwk import JWKRegistry
    alg = ALGS[alg_i]
    encname = ENCS[enc_i][0]
    crv = CURVES[curve_i]
    key = JWKRegistry.import_key(dict(R.test_key(crv), kid="r1"))
    sender = JWKRegistry.import_key(R._ephemeral(crv)) if alg.startswith("ECDH-1PU") else None
    mine = dict(R._ephemeral(crv))
    epk = dict(mine) if priv else {k: v for k, v in mine.items() if k != "d"}
    reg = JWERegistry(algorithms=ALL_NAMES)
    pt = b"epk-plaintext"
    try:
        if ser == 0:
            tok = jwe.encrypt_compact({"alg": alg, "enc": encname, "epk": epk}, pt, key, registry=reg, sender_key=sender)
            headers = [R.json.loads(R.b64d(tok.split(".")[0]))]
            text = tok
        else:
            obj = (FlattenedJSONEncryption if ser == 1 else GeneralJSONEncryption)({"enc": encname}, pt)
            obj.add_recipient({"alg": alg, "epk": epk}, key)
            tok = jwe.encrypt_json(obj, None, registry=reg, sender_key=sender)
            headers = [R.json.loads(R.b64d(tok["protected"])), tok.get("unprotected") or {}, tok.get("header") or {}] + \
                      [r.get("header") or {} for r in tok.get("recipients", [])]
            text = R.json.dumps(tok)
    except Exception as e:  # noqa
        return {"violated": False, "detail": "real code refused to encrypt with a caller-supplied epk: %r" % (e,)}
    leaks = ["header member epk.%s" % m for h in headers for m in (h.get("epk") or {}) if m in ice.PRIVATE_NAMES]
    if "d" in mine and mine["d"] in text:
        leaks.append("the base64url of the caller key's d appears in the token")
    return {"violated": bool(leaks), "key": "c12-caller-epk", "detail": "alg=%s %s %s, the caller's header carries a %s epk JWK: %s" %
            (alg, crv, ["compact", "flattened", "general"][ser], "PRIVATE" if priv else "public", leaks or "no private material in the token")}


def replay(func, call):
    import warnings, os, json
    warnings.simplefilter("ignore")
    from vlib import refjose as R
    from joserfc.jwk import JWKRegistry
    args = eval("(" + call + ",)")
    n_rec, alg2_i = 1, None
    has_zip = apu = keyset = False
    hdr_where = pick = 0
    aad = None
    curve_i = 0
    if func == "roundtrip_layout":
        alg_i, enc_i, curve_i, ser, pt, aad, hdr_where = args
        func = "roundtrip"
    elif func == "roundtrip_options":
        alg_i, enc_i, curve_i, ser, has_zip, apu, keyset, pick = args
        pt, aad, func = b"pt", (b"ad" if ser else None), "roundtrip"
    elif func == "roundtrip":
        alg_i, enc_i, curve_i, ser, has_zip, pt, aad, apu, hdr_where, keyset, pick = args
    elif func == "single_key_mixed":
        return replay_single_key_mixed(*args)
    elif func == "shared_alg_recipients":
        return replay_shared_alg(*args)
    elif func == "explicit_kid":
        return replay_explicit_kid(*args)
    elif func == "caller_epk":
        return replay_caller_epk(*args)
    elif func == "two_recipients":
        alg_i, alg2_i, enc_i, pt, aad = args
        ser, n_rec, hdr_where = 2, 2, 2
    elif func == "two_messages":
        alg_i, enc_i, curve_i, ser = args
        pt = b"same"
    else:
        return {"violated": None, "detail": "witness"}
    alg = ALGS[alg_i]
    encname, ivbits, cekbits, kind = ENCS[enc_i]

    def real_key(a, kid):
        if a.startswith("RSA"):
            j = R.test_key("RSA2048")
        elif a == "dir":
            j = R.test_key("oct%d" % (cekbits // 8))
        elif a.startswith("ECDH"):
            j = R.test_key(CURVES[curve_i])
        elif a.startswith("PBES2"):
            j = R.test_key("oct24")
        else:
            j = R.test_key("oct%d" % (int(a[1:4]) // 8))
        return dict(j, kid=kid)
    jk = real_key(alg, "r1")
    key = JWKRegistry.import_key(jk)
    need_sender = alg.startswith("ECDH-1PU") or (alg2_i is not None and ALGS[alg2_i].startswith("ECDH-1PU"))
    sender = JWKRegistry.import_key(R._ephemeral(CURVES[curve_i])) if need_sender else None
    reg = JWERegistry(algorithms=ALL_NAMES)
    fb = forbidden(alg, kind, n_rec, ALGS[alg2_i] if alg2_i is not None else None)
    problems = []
    ivs, epks = [], []
    for round_ in range(2 if func == "two_messages" else 1):
        try:
            prot = {"enc": encname}
            if has_zip:
                prot["zip"] = "DEF"
            extra = {"apu": R.b64e(b"Alice"), "apv": R.b64e(b"Bob")} if (apu and alg.startswith("ECDH")) else {}
            kset = KeySet([key, JWKRegistry.import_key(dict(real_key(alg, "r2")))]) if keyset else None
            if ser == 0:
                hdr = {"alg": alg, **prot, **extra}
                given = json.loads(json.dumps(hdr))
                tok = jwe.encrypt_compact(hdr, pt, kset or key, registry=reg, sender_key=sender)
                if fb:
                    problems.append("forbidden combination produced a token")
                    break
                out = jwe.decrypt_compact(tok, kset or key, registry=reg, sender_key=sender)
                ivs.append(tok.split(".")[2])
                got = {k: v for k, v in out.protected.items() if k not in added_members(alg) | {"kid"}}
                if got != given:
                    problems.append("protected header %r != given %r" % (got, given))
                try:
                    if not alg.startswith("ECDH-1PU") and kind != "chacha":
                        rp, _ = R.compact_decrypt(tok.encode(), jk)
                        if rp != pt:
                            problems.append("independent implementation decrypts to %r" % rp)
                except R.RefError as e:
                    problems.append("independent implementation rejects the produced token: %s" % e)
            else:
                cls = FlattenedJSONEncryption if ser == 1 else GeneralJSONEncryption
                p, u, rh = dict(prot), {}, {}
                [p, u, rh][hdr_where]["alg"] = alg
                [p, u, rh][hdr_where].update(extra)
                obj = cls(p, pt, u or None, aad)
                obj.add_recipient(rh or None, None if keyset else key)
                keys2 = [key]
                if n_rec == 2:
                    k2 = JWKRegistry.import_key(real_key(ALGS[alg2_i], "s1"))
                    obj.add_recipient({"alg": ALGS[alg2_i]}, k2)
                    keys2.append(k2)
                tok = jwe.encrypt_json(obj, kset, registry=reg, sender_key=sender)
                if fb:
                    problems.append("forbidden combination produced a token")
                    break
                ivs.append(tok["iv"])
                if n_rec == 2:
                    it = iter(keys2)
                    out = jwe.decrypt_json(tok, (lambda r: next(it)), registry=reg, sender_key=sender)
                else:
                    out = jwe.decrypt_json(tok, kset or key, registry=reg, sender_key=sender)
                if n_rec == 2:
                    e = [json.dumps((r.get("header") or {}).get("epk"), sort_keys=True) for r in tok["recipients"] if (r.get("header") or {}).get("epk")]
                    if len(set(e)) != len(e):
                        problems.append("two recipients share one ephemeral public key")
            if out.plaintext != pt:
                problems.append("plaintext %r != %r" % (out.plaintext, pt))
        except Exception as e:  # noqa
            if not (fb and isinstance(e, (ConflictAlgorithmError, InvalidEncryptionAlgorithmError))):
                problems.append("%s: %s" % (type(e).__name__, str(e)[:100]))
            break
    if len(ivs) == 2 and ivs[0] == ivs[1]:
        problems.append("two encryptions used the same IV")
    if not problems and func in ("two_messages", "roundtrip"):
        problems += freshness_probe(alg, encname, key, sender, reg)
    if problems:
        return {"violated": True, "key": "c04-" + func, "detail": "alg=%s enc=%s ser=%s zip=%s: %s" % (alg, encname, ser, has_zip, "; ".join(problems[:3]))}
    return {"violated": False, "detail": "round trip fine on the real code"}


def freshness_probe(alg, encname, key, sender, reg):
    """concrete freshness replay: 64 encryptions in-process + 2 forked children after a warm-up; IVs / encrypted keys / epk / p2s
    must be pairwise distinct and of the right size"""
    import os, json, base64
    out = []

    def sample():
        t = jwe.encrypt_compact({"alg": alg, "enc": encname}, b"x", key, registry=reg, sender_key=sender)
        h, ek, iv, ct, tag = t.split(".")
        hd = json.loads(base64.urlsafe_b64decode(h + "=" * (-len(h) % 4)))
        return iv, ek, json.dumps(hd.get("epk"), sort_keys=True), hd.get("p2s"), hd.get("iv"), hd.get("p2c")
    try:
        # (cheap key management: enough encryptions for a size defect that shows once in 256 draws, e.g. a leading zero octet dropped)
        ss = [sample() for _ in range(4096 if alg.endswith("GCMKW") or alg == "dir" or alg[1:4].isdigit() else 64)]
    except Exception as e:  # noqa
        return []
    for idx, label in ((0, "IV"), (1, "encrypted key"), (2, "ephemeral key"), (3, "p2s"), (4, "key-wrap IV")):
        vals = [s[idx] for s in ss if s[idx] not in (None, "", "null")]
        if len(set(vals)) != len(vals):
            out.append("%s repeats within %d encryptions" % (label, len(ss)))
    want_iv = {e[0]: e[1] for e in ENCS}[encname] // 8
    if any(len(base64.urlsafe_b64decode(s[0] + "=" * (-len(s[0]) % 4))) != want_iv for s in ss):
        out.append("IV of the wrong size")
    p2s = [s[3] for s in ss if s[3]]
    if p2s and any(len(base64.urlsafe_b64decode(x + "=" * (-len(x) % 4))) < 8 for x in p2s):
        out.append("PBES2 salt input shorter than 8 octets")
    if any(s[5] is not None and s[5] < 1000 for s in ss):
        out.append("default p2c below 1000")
    kwiv = [s[4] for s in ss if s[4]]
    if kwiv and any(len(base64.urlsafe_b64decode(x + "=" * (-len(x) % 4))) != 12 for x in kwiv):
        out.append("AES-GCM key-wrap IV that is not 96 bits (%d of %d)" % (sum(1 for x in kwiv if len(base64.urlsafe_b64decode(x + "=" * (-len(x) % 4))) != 12), len(kwiv)))
    # across forked processes
    rs = []
    for _ in range(2):
        r, w = os.pipe()
        pid = os.fork()
        if pid == 0:
            try:
                os.close(r)
                v = [sample()[0] for _ in range(4)]
                os.write(w, json.dumps(v).encode())
            finally:
                os._exit(0)
        os.close(w)
        data = b""
        while True:
            chunk = os.read(r, 65536)
            if not chunk:
                break
            data += chunk
        os.close(r)
        os.waitpid(pid, 0)
        rs.append(json.loads(data or b"[]"))
    if len(rs) == 2 and set(rs[0]) & set(rs[1]):
        out.append("two forked processes produced the same IV")
    return out
