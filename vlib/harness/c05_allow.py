"""C05 harnesses: only caller-allowed algorithms are used; default = the documented recommended set; none never verifies;
no dependence on earlier calls.  Gate-level harnesses use no stubs (pure Python registries)."""
import os
from typing import Optional, List, Union
from joserfc import jws, jwe, jwt
from joserfc.rfc7515.registry import JWSRegistry, construct_registry, default_registry as JWS_DEFAULT
from joserfc.rfc7516.registry import JWERegistry, default_registry as JWE_DEFAULT
from joserfc.errors import UnsupportedAlgorithmError, JoseError
from vlib import ice, rt

# literal copy of the statement / docs/guide/algorithms.rst ("recommended")
JWS_ALL = ["none", "HS256", "HS384", "HS512", "RS256", "RS384", "RS512", "ES256", "ES384", "ES512", "PS256", "PS384", "PS512", "EdDSA", "ES256K"]
JWS_REC = {"HS256", "RS256", "ES256"}
JWE_ALG = ["RSA1_5", "RSA-OAEP", "RSA-OAEP-256", "A128KW", "A192KW", "A256KW", "dir", "ECDH-ES", "ECDH-ES+A128KW", "ECDH-ES+A192KW",
           "ECDH-ES+A256KW", "A128GCMKW", "A192GCMKW", "A256GCMKW", "PBES2-HS256+A128KW", "PBES2-HS384+A192KW", "PBES2-HS512+A256KW"]
JWE_ENC = ["A128CBC-HS256", "A192CBC-HS384", "A256CBC-HS512", "A128GCM", "A192GCM", "A256GCM"]
JWE_ZIP = ["DEF"]
JWE_REC = {"RSA-OAEP", "A128KW", "A256KW", "dir", "ECDH-ES", "ECDH-ES+A128KW", "ECDH-ES+A256KW", *JWE_ENC, "DEF"}
JWS_POOL = JWS_ALL + ["zz", "A128KW", ""]
JWE_POOL = JWE_ALG + JWE_ENC + JWE_ZIP + ["zz", "HS256", "C20P", "ECDH-1PU"]
LOC = {"alg": set(JWE_ALG), "enc": set(JWE_ENC), "zip": set(JWE_ZIP)}


def spec_jws(name, allow):
    if not isinstance(name, str) or name not in JWS_ALL:
        return False
    return (name in allow) if allow else (name in JWS_REC)


def spec_jwe(loc, name, allow):
    if not isinstance(name, str) or name not in LOC[loc]:
        return False
    return (name in allow) if allow else (name in JWE_REC)


def gate_jws(reg, name):
    try:
        m = reg.get_alg(name)
    except UnsupportedAlgorithmError:
        return False
    return m.name == name and JWSRegistry.algorithms.get(name) is m


def gate_jwe(reg, loc, name):
    try:
        m = getattr(reg, "get_" + loc)(name)
    except UnsupportedAlgorithmError:
        return False
    return m.name == name and m.algorithm_location == loc


def jws_gate(name: str, allow: Optional[List[str]], via_construct: bool) -> bool:
    """
    pre: len(name) <= 7
    pre: allow is None or (len(allow) <= 3 and all(len(a) <= 7 for a in allow))
    post: _
    """
    rt.tick()
    reg = construct_registry(allow) if via_construct else JWSRegistry(algorithms=allow)
    return gate_jws(reg, name) == spec_jws(name, allow)


def jwe_gate(loc_i: int, name: str, allow: Optional[List[str]]) -> bool:
    """
    pre: 0 <= loc_i <= 2 and len(name) <= 18
    pre: allow is None or (len(allow) <= 3 and all(len(a) <= 18 for a in allow))
    post: _
    """
    rt.tick()
    loc = ("alg", "enc", "zip")[loc_i]
    return gate_jwe(JWERegistry(algorithms=allow), loc, name) == spec_jwe(loc, name, allow)


def gate_witness(name: str, allow: Optional[List[str]]) -> bool:
    """
    pre: len(name) <= 18
    pre: allow is None or (len(allow) <= 3 and all(len(a) <= 18 for a in allow))
    post: _
    """
    return not (gate_jwe(JWERegistry(algorithms=allow), "alg", name) and allow is not None and name == "PBES2-HS512+A256KW")


# ---------------------------------------------------------------- histories: earlier calls with other allow-lists
def history_jws(l1: List[str], extra: str, l2: Optional[List[str]], name: str, use_construct: bool) -> bool:
    """
    pre: len(l1) <= 1 and all(len(a) <= 7 for a in l1) and len(extra) <= 7 and len(name) <= 7
    pre: l2 is None or (len(l2) <= 1 and all(len(a) <= 7 for a in l2))
    post: _
    """
    rt.tick()
    L1 = list(l1)
    r1 = construct_registry(L1) if use_construct else JWSRegistry(algorithms=L1)
    gate_jws(r1, name)
    L1.append(extra)                    # the caller re-uses and extends its own list afterwards
    L2 = None if l2 is None else list(l2)
    r2 = construct_registry(L2) if use_construct else JWSRegistry(algorithms=L2)
    return gate_jws(r2, name) == spec_jws(name, L2) and gate_jws(JWS_DEFAULT, name) == spec_jws(name, None)


def history_jwe(l1: List[str], extra: str, l2: Optional[List[str]], loc_i: int, name: str) -> bool:
    """
    pre: len(l1) <= 1 and all(len(a) <= 18 for a in l1) and len(extra) <= 18 and len(name) <= 18
    pre: l2 is None or (len(l2) <= 1 and all(len(a) <= 18 for a in l2))
    pre: 0 <= loc_i <= 2
    post: _
    """
    rt.tick()
    loc = ("alg", "enc", "zip")[loc_i]
    L1 = list(l1)
    gate_jwe(JWERegistry(algorithms=L1), loc, name)
    L1.append(extra)
    L2 = None if l2 is None else list(l2)
    return gate_jwe(JWERegistry(algorithms=L2), loc, name) == spec_jwe(loc, name, L2) and \
        gate_jwe(JWE_DEFAULT, loc, name) == spec_jwe(loc, name, None)


# ---------------------------------------------------------------- operations (JWS side): primitives are reached only with an allowed alg
_KEYS = {"oct": ice.fake_key("oct64"), "RSA": ice.fake_key("RSA", private=True), "EC": None, "OKP": ice.fake_key("Ed25519", private=True)}
_EC = {"ES256": ice.fake_key("P-256", private=True), "ES384": ice.fake_key("P-384", private=True), "ES512": ice.fake_key("P-521", private=True),
       "ES256K": ice.fake_key("secp256k1", private=True)}


KEY_BY_ALG = {**_EC, "EdDSA": _KEYS["OKP"], **{n: _KEYS["RSA"] for n in ("RS256", "RS384", "RS512", "PS256", "PS384", "PS512")}}
SIGLEN = {"ES384": 96, "ES512": 132, "HS256": 32, "HS384": 48, "HS512": 64}


def key_for(name):
    return KEY_BY_ALG.get(name, _KEYS["oct"])


def jws_op_serialize_compact(name: str, allow: Optional[List[str]], via_registry: bool, vr: bool) -> bool:
    """
    pre: len(name) <= 7
    pre: allow is None or (len(allow) <= 1 and all(len(a) <= 7 for a in allow))
    post: _
    """
    return _jws_ops(0, name, allow, via_registry, vr)


def jws_op_serialize_json(name: str, allow: Optional[List[str]], via_registry: bool, vr: bool) -> bool:
    """
    pre: len(name) <= 7
    pre: allow is None or (len(allow) <= 1 and all(len(a) <= 7 for a in allow))
    post: _
    """
    return _jws_ops(1, name, allow, via_registry, vr)


def jws_op_deserialize_compact(name: str, allow: Optional[List[str]], via_registry: bool, vr: bool) -> bool:
    """
    pre: len(name) <= 7
    pre: allow is None or (len(allow) <= 1 and all(len(a) <= 7 for a in allow))
    post: _
    """
    return _jws_ops(2, name, allow, via_registry, vr)


def jws_op_deserialize_json(name: str, allow: Optional[List[str]], via_registry: bool, vr: bool) -> bool:
    """
    pre: len(name) <= 7
    pre: allow is None or (len(allow) <= 1 and all(len(a) <= 7 for a in allow))
    post: _
    """
    return _jws_ops(3, name, allow, via_registry, vr)


def jws_op_jwt_encode(name: str, allow: Optional[List[str]], via_registry: bool, vr: bool) -> bool:
    """
    pre: len(name) <= 7
    pre: allow is None or (len(allow) <= 1 and all(len(a) <= 7 for a in allow))
    post: _
    """
    return _jws_ops(4, name, allow, via_registry, vr)


def jws_op_jwt_decode(name: str, allow: Optional[List[str]], via_registry: bool, vr: bool) -> bool:
    """
    pre: len(name) <= 7
    pre: allow is None or (len(allow) <= 1 and all(len(a) <= 7 for a in allow))
    post: _
    """
    return _jws_ops(5, name, allow, via_registry, vr)


def _jws_ops(op, name, allow, via_registry, vr):
    rt.tick()
    al = allow
    key = key_for(name)
    env = ice.Env(True, [vr, vr])
    env.ecdsa_rs = (5, 7)
    hdr = {"alg": name}
    kw = {"registry": JWSRegistry(algorithms=al)} if via_registry else {"algorithms": al}
    env.bind_b64(b"HDRSEG", b"HDRJSON")
    env.bind_json(b"HDRJSON", lambda: {"alg": name})
    env.bind_b64(b"PAYSEG", b"payload")
    env.bind_json(b"payload", lambda: {"sub": "x"})
    env.bind_b64(b"SIGSEG", bytes(SIGLEN.get(name, 64)))
    tok = b"HDRSEG.PAYSEG.SIGSEG"
    with env.installed():
        try:
            if op == 0:
                jws.serialize_compact(hdr, b"payload", key, **kw)
            elif op == 1:
                jws.serialize_json({"protected": hdr}, b"payload", key, **kw)
            elif op == 2:
                jws.deserialize_compact(tok, key, **kw)
            elif op == 3:
                jws.deserialize_json({"payload": "PAYSEG", "protected": "HDRSEG", "signature": "SIGSEG"}, key, **kw)
            elif op == 4:
                jwt.encode(hdr, {"sub": "x"}, key, **kw)
            else:
                jwt.decode(tok, key, **kw)
            returned = True
        except ice.HarnessError:
            raise
        except Exception as e:  # noqa
            returned = False
            exc = e
    used = env.of("sign") + env.of("verify") + env.of("hmac")
    ok_name = spec_jws(name, al)
    if returned and not ok_name:
        return False
    if used and not ok_name:
        return False                         # a primitive was reached with a name that is not allowed
    if returned and name == "none" and op in (2, 3, 5):
        return False                         # none never verifies
    if not returned and not ok_name and isinstance(name, str) and not isinstance(exc, UnsupportedAlgorithmError) \
            and not isinstance(exc, (ValueError,)):
        return False
    return True


def jws_ops_witness(op: int, name: str, allow: Optional[List[str]], via_registry: bool, vr: bool) -> bool:
    """
    pre: 0 <= op <= 5 and len(name) <= 7
    pre: allow is None or (len(allow) <= 2 and all(len(a) <= 7 for a in allow))
    post: _
    """
    env = ice.Env(True, [vr, vr])
    with env.installed():
        env.bind_b64(b"HDRSEG", b"HDRJSON")
        env.bind_json(b"HDRJSON", lambda: {"alg": name})
        env.bind_b64(b"PAYSEG", b"payload")
        env.bind_b64(b"SIGSEG", bytes(SIGLEN.get(name, 64)))
        try:
            jws.deserialize_compact(b"HDRSEG.PAYSEG.SIGSEG", key_for(name), allow)
        except Exception:  # noqa
            return True
    return not (name == "HS384")


# ---------------------------------------------------------------- operations (JWE side)
from vlib.harness_loader import load as _load
C16 = _load("c16_errors.py")
_JK = {"RSA": ice.fake_key("RSA", private=True), "EC": ice.fake_key("P-256", private=True), "oct16": ice.fake_key("oct16"), "oct24": ice.fake_key("oct24"),
       "oct32": ice.fake_key("oct32")}
JWE_KEY = {"RSA1_5": "RSA", "RSA-OAEP": "RSA", "RSA-OAEP-256": "RSA", "A128KW": "oct16", "A192KW": "oct24", "A256KW": "oct32", "ECDH-ES": "EC",
           "ECDH-ES+A128KW": "EC", "ECDH-ES+A192KW": "EC", "ECDH-ES+A256KW": "EC", "A128GCMKW": "oct16", "A192GCMKW": "oct24", "A256GCMKW": "oct32",
           "PBES2-HS256+A128KW": "oct32", "PBES2-HS384+A192KW": "oct32", "PBES2-HS512+A256KW": "oct32"}
CEKLEN = {"A128CBC-HS256": 32, "A192CBC-HS384": 48, "A256CBC-HS512": 64, "A128GCM": 16, "A192GCM": 24, "A256GCM": 32}
_JP = None
LITE = os.environ.get('VERIF_TIER', 'quick') == 'quick'
ALLOW_MAX = 1 if LITE else 2
FIX_MAX = (0, 3, 5) if LITE else (1, 5, 5)


def _jwe_ops(op, alg, enc, has_zip, zipname, allow, via_registry, v0, v1):
    global _JP
    rt.tick()
    if _JP is None:
        _JP = C16.patches()
    n, cbc = 16, False
    for k_, v_ in CEKLEN.items():            # equality scan: no hashing / substring search on the symbolic name
        if enc == k_:
            n, cbc = v_, k_[4:7] == "CBC"
            break
    kind = None
    for k_, v_ in JWE_KEY.items():
        if alg == k_:
            kind = v_
            break
    key = _JK[kind] if kind else ice.fake_key("oct%d" % n)
    hdr = {"alg": alg, "enc": enc}
    if has_zip:
        hdr["zip"] = zipname
    full = dict(hdr)
    if alg in ("A128GCMKW", "A192GCMKW", "A256GCMKW"):
        full["iv"], full["tag"] = "KWIV", "KWTAG"
    if kind and alg in ("PBES2-HS256+A128KW", "PBES2-HS384+A192KW", "PBES2-HS512+A256KW"):
        full["p2s"], full["p2c"] = "P2S", 1000
    if kind == "EC":
        full["epk"] = {"kty": "EC", "crv": "P-256", "x": "EPKX", "y": "EPKY"}
    env = C16.jwe_env(full, [v0, v1, v1])
    env.bind_b64(b"IVSEG", bytes(16 if cbc else 12))
    env.ceks = [bytes(n), bytes(n)]
    env.plaintext = b"payload"
    env.bind_json(b"payload", lambda: {"sub": "x"})
    kw = {"registry": JWERegistry(algorithms=allow)} if via_registry else {"algorithms": allow}
    tok = b"PROTSEG." + (b"" if alg in ("dir", "ECDH-ES") else b"EKSEG") + b".IVSEG.CTSEG.TAGSEG"
    with env.installed(_JP):
        try:
            if op == 0:
                jwe.encrypt_compact(dict(hdr), b"pt", key, **kw)
            elif op == 1:
                jwe.decrypt_compact(tok, key, **kw)
            elif op == 2:
                o = jwe.FlattenedJSONEncryption({k: v for k, v in hdr.items() if k != "alg"}, b"pt")
                o.add_recipient({"alg": alg}, key)
                jwe.encrypt_json(o, None, **kw)
            elif op == 3:
                v = {"protected": "PROTSEG", "iv": "IVSEG", "ciphertext": "CTSEG", "tag": "TAGSEG"}
                if alg not in ("dir", "ECDH-ES"):
                    v["encrypted_key"] = "EKSEG"
                jwe.decrypt_json(v, key, **kw)
            elif op == 4:
                jwt.encode(dict(hdr), {"sub": "x"}, key, registry=JWERegistry(algorithms=allow))
            else:
                jwt.decode(tok, key, registry=JWERegistry(algorithms=allow))
            returned, exc = True, None
        except ice.HarnessError:
            raise
        except Exception as e:  # noqa
            returned, exc = False, e
    ok = spec_jwe("alg", alg, allow) and spec_jwe("enc", enc, allow) and (not has_zip or spec_jwe("zip", zipname, allow))
    prims = [c for c in env.calls if c["kind"] in ("gcm_encrypt", "gcm_decrypt", "cbc_encrypt", "cbc_decrypt", "wrap", "unwrap", "rsa_encrypt", "rsa_decrypt",
                                                   "exchange", "pbkdf2", "concatkdf", "hmac", "zcompress", "zdecompress")]
    if returned and not ok:
        return False
    if prims and not (spec_jwe("alg", alg, allow) and spec_jwe("enc", enc, allow)):
        return False                     # a cryptographic primitive was used although alg or enc is not allowed
    if not returned and not ok and not isinstance(exc, (JoseError, ValueError)):
        return False                     # (another defect of the token may be reported first; it must still be a library error)
    return True


ALG_FIX = ["dir", "A128KW", "RSA-OAEP", "ECDH-ES+A128KW", "PBES2-HS256+A128KW", "A128GCMKW"]
ENC_FIX = ["A128GCM", "A128CBC-HS256"]


def resolve_jwe(vary, name, fix, has_zip, allow, inc_a, inc_b):
    """One header location varies symbolically (vary: 0 alg, 1 enc, 2 zip); the other two take registered names from a small pool and are
    appended to the (symbolic) allow-list under inc_a / inc_b."""
    if vary == 0:
        alg, enc, zipname = name, ENC_FIX[fix % 2], "DEF"
        extra = ([enc] if inc_a else []) + (["DEF"] if inc_b else [])
    elif vary == 1:
        alg, enc, zipname = ALG_FIX[fix], name, "DEF"
        extra = ([alg] if inc_a else []) + (["DEF"] if inc_b else [])
    else:
        alg, enc, zipname, has_zip = ALG_FIX[fix], ENC_FIX[0], name, True
        extra = ([alg] if inc_a else []) + ([enc] if inc_b else [])
    return alg, enc, has_zip, zipname, (None if allow is None else list(allow) + extra)


def jwe_ops(op: int, vary: int, fix: int, name: str, has_zip: bool, allow: Optional[List[str]], inc_a: bool, inc_b: bool, via_registry: bool,
            v0: bool, v1: bool) -> bool:
    """
    PRE: 0 <= op <= 5 and 0 <= vary <= 2 and 0 <= fix <= FIX_MAX[vary] and len(name) <= (18, 13, 3)[vary]
    PRE: not LITE or vary == 2 or (inc_b and not has_zip)
    PRE: allow is None or (len(allow) <= ALLOW_MAX and all(len(a) <= (18, 13, 3)[vary] for a in allow))
    POST: _
    """
    alg, enc, has_zip, zipname, al = resolve_jwe(vary, name, fix, has_zip, allow, inc_a, inc_b)
    return _jwe_ops(op, alg, enc, has_zip, zipname, al, via_registry, v0, v1)


def jwe_second_recipient(alg2: str, inc2: bool, extra: Optional[str], first: bool, v0: bool, v1: bool, v2: bool) -> bool:
    """
    pre: len(alg2) <= 18 and (extra is None or len(extra) <= 18)
    post: _
    """
    # general JSON with two recipients, registry with verify_all_recipients=False: one recipient (A128KW, allowed) opens the message; the
    # OTHER recipient's "alg" is attacker-chosen.  The call may return only if that name is allowed too -- an unlisted or unknown name in any
    # recipient makes the call fail, wherever the recipient stands
    global _JP
    rt.tick()
    if _JP is None:
        _JP = C16.patches()
    allow = ["A128KW", "A128GCM"] + ([alg2] if inc2 else []) + ([extra] if extra is not None else [])
    env = C16.jwe_env({"enc": "A128GCM"}, [v0, v1, v2, v2])
    env.ceks = [bytes(16), bytes(16)]
    good, other = {"header": {"alg": "A128KW"}, "encrypted_key": "EKSEG"}, {"header": {"alg": alg2}, "encrypted_key": "EKSEG"}
    value = {"protected": "PROTSEG", "iv": "IVSEG", "ciphertext": "CTSEG", "tag": "TAGSEG", "recipients": [good, other] if first else [other, good]}
    reg = JWERegistry(algorithms=allow, verify_all_recipients=False)
    with env.installed(_JP):
        try:
            jwe.decrypt_json(value, _JK["oct16"], registry=reg)
            returned = True
        except ice.HarnessError:
            raise
        except Exception:  # noqa
            returned = False
    return not (returned and not spec_jwe("alg", alg2, allow))


def jwe_ops_witness(op: int, alg: str, enc: str, allow: Optional[List[str]], v0: bool, v1: bool) -> bool:
    """
    pre: 0 <= op <= 3 and len(alg) <= 18 and len(enc) <= 13
    pre: allow is None or (len(allow) <= 2 and all(len(a) <= 18 for a in allow))
    post: _
    """
    global _JP
    if _JP is None:
        _JP = C16.patches()
    env = C16.jwe_env({"alg": alg, "enc": enc}, [v0, v1, v1])
    with env.installed(_JP):
        try:
            jwe.decrypt_compact(b"PROTSEG.EKSEG.IVSEG.CTSEG.TAGSEG", _JK.get(JWE_KEY.get(alg), _JK["oct16"]), algorithms=allow)
        except Exception:  # noqa
            return True
    return not (alg == "A128KW" and allow is not None)


def replay_state_leak():
    """CrossHair saw different paths for the same decisions: some registry state survives a call.  Scripted concrete histories
    on the real code (no stubs): every (first list, extension, second list, name) over the registered names + one unknown."""
    names = JWS_ALL + ["zz"]
    for a in names:
        for ib, b in enumerate(names):
            for use_construct in (True, False):
                # a list value not used before in this process (state may be keyed by the list's contents)
                first = [a] * (ib + 1)
                for l2 in (list(first), None):
                    if not history_jws(first, b, l2, b, use_construct):
                        return {"violated": True, "key": "c05-history", "detail": "call 1 with algorithms=L (L=%r), then L.append(%r), then a call "
                                "with the fresh list %r: alg %r is %s although in isolation it is %s (construct_registry=%s)"
                                % (first[:-1], b, l2, b, "accepted" if not spec_jws(b, l2) else "refused", "refused" if not spec_jws(b, l2) else "accepted", use_construct)}
    names = JWE_ALG[:8] + JWE_ENC[:2] + JWE_ZIP + ["zz"]
    for a in names:
        for ib, b in enumerate(names):
            for loc_i in range(3):
                first = [a] * (3 * ib + loc_i + 1)
                for l2 in (list(first), None):
                    if not history_jwe(first, b, l2, loc_i, b):
                        return {"violated": True, "key": "c05-history", "detail": "JWE registry history L=%r + %r then %r: name %r judged differently from isolation" % (first[:-1], b, l2, b)}
    return {"violated": None, "detail": "nondeterminism seen by CrossHair but no scripted history reproduces a changed verdict"}


def replay(func, call):
    if call == "@nondeterministic":
        return replay_state_leak()
    if func == "jwe_second_recipient":
        import warnings
        warnings.simplefilter("ignore")
        from vlib import refjose as R
        from joserfc.jwk import JWKRegistry
        from cryptography.hazmat.primitives.keywrap import aes_key_wrap
        alg2, inc2, extra, first, v0, v1, v2 = eval("(" + call + ",)")
        allow = ["A128KW", "A128GCM"] + ([alg2] if inc2 else []) + ([extra] if extra is not None else [])
        jwk = R.test_key("oct16")
        cek = bytes(range(16))
        pseg = R.b64e(b'{"enc":"A128GCM"}')
        ct, tag = R.content_encrypt("A128GCM", cek, bytes(12), pseg.encode(), b"two recipients")
        ek = R.b64e(aes_key_wrap(R.b64d(jwk["k"]), cek))
        good, other = {"header": {"alg": "A128KW"}, "encrypted_key": ek}, {"header": {"alg": alg2}, "encrypted_key": ek}
        value = {"protected": pseg, "iv": R.b64e(bytes(12)), "ciphertext": R.b64e(ct), "tag": R.b64e(tag), "recipients": [good, other] if first else [other, good]}
        try:
            out = jwe.decrypt_json(value, JWKRegistry.import_key(jwk), registry=JWERegistry(algorithms=allow, verify_all_recipients=False))
            returned, what = True, "returned %r" % (out.plaintext,)
        except Exception as e:  # noqa
            returned, what = False, "%s" % type(e).__name__
        ok = spec_jwe("alg", alg2, allow)
        return {"violated": returned and not ok, "key": "c05-second-recipient", "detail": "general JSON, recipients %s, allow-list %r, verify_all_recipients=False -> %s"
                % (["A128KW", alg2] if first else [alg2, "A128KW"], allow, what)}
    if func.startswith("jwe_ops"):
        import warnings
        warnings.simplefilter("ignore")
        from vlib import refjose as R
        from joserfc.jwk import JWKRegistry
        a = eval("(" + call + ",)")
        if "__" in func:
            a = tuple(int(x) for x in func.split("__")[1].split("_")) + a
        op, vary, fix, name, has_zip, allow, inc_a, inc_b, via_registry, v0, v1 = a
        alg, enc, has_zip, zipname, allow = resolve_jwe(vary, name, fix, has_zip, allow, inc_a, inc_b)
        kk = {"RSA": "RSA2048", "EC": "P-256"}.get(JWE_KEY.get(alg), JWE_KEY.get(alg)) or ("oct%d" % CEKLEN.get(enc, 16))
        jwk = R.test_key(kk)
        key = JWKRegistry.import_key(jwk)
        hdr = {"alg": alg, "enc": enc, **({"zip": zipname} if has_zip else {})}
        kw = {"registry": JWERegistry(algorithms=allow)} if via_registry else {"algorithms": allow}
        try:
            add, ek, cek = R.key_manage(alg, enc, R.public_jwk(jwk) if jwk["kty"] != "oct" else jwk)
            import zlib
            tok = R.compact_encrypt({**hdr, **add}, b'{"sub":"x"}', cek, ek, bytes(12 if "GCM" in enc else 16))
        except Exception:  # noqa
            tok = "e30.AA.AA.AA.AA"
        try:
            if op in (0, 2, 4):
                if op == 0:
                    jwe.encrypt_compact(dict(hdr), b"pt", key, **kw)
                elif op == 2:
                    o = jwe.FlattenedJSONEncryption({k: v for k, v in hdr.items() if k != "alg"}, b"pt")
                    o.add_recipient({"alg": alg}, key)
                    jwe.encrypt_json(o, None, **kw)
                else:
                    jwt.encode(dict(hdr), {"sub": "x"}, key, registry=JWERegistry(algorithms=allow))
            elif op == 1:
                jwe.decrypt_compact(tok, key, **kw)
            elif op == 3:
                h, e_, iv, ct, tg = tok.split(".")
                v = {"protected": h, "iv": iv, "ciphertext": ct, "tag": tg}
                if e_:
                    v["encrypted_key"] = e_
                jwe.decrypt_json(v, key, **kw)
            else:
                jwt.decode(tok, key, registry=JWERegistry(algorithms=allow))
            returned, exc = True, None
        except Exception as e:  # noqa
            returned, exc = False, e
        ok = spec_jwe("alg", alg, allow) and spec_jwe("enc", enc, allow) and (not has_zip or spec_jwe("zip", zipname, allow))
        bad = (returned and not ok) or (not returned and not ok and not isinstance(exc, (JoseError, ValueError)))
        return {"violated": bool(bad), "key": "c05-jwe-op", "detail": "op=%d alg=%r enc=%r zip=%r allow=%r -> %s" %
                (op, alg, enc, zipname if has_zip else None, allow, "returned" if returned else type(exc).__name__)}
    if func.startswith("jws_op_"):
        OPS = ["serialize_compact", "serialize_json", "deserialize_compact", "deserialize_json", "jwt_encode", "jwt_decode"]
        call = "%d, %s" % (OPS.index(func[7:]), call)
        func = "jws_ops"
    if func in ("jws_ops",):
        import warnings
        warnings.simplefilter("ignore")
        from vlib import refjose as R
        from joserfc.jwk import JWKRegistry
        op, name, al, via_registry, vr = eval("(" + call + ",)")
        kind = {"ES256": "P-256", "ES384": "P-384", "ES512": "P-521", "ES256K": "secp256k1", "EdDSA": "Ed25519"}.get(name)
        if kind is None:
            kind = "RSA2048" if name[:2] in ("RS", "PS") else "oct64"
        jwk = R.test_key(kind)
        key = JWKRegistry.import_key(jwk)
        kw = {"registry": JWSRegistry(algorithms=al)} if via_registry else {"algorithms": al}
        hdr = {"alg": name}
        try:
            valid = R.compact_sign(hdr, b'{"sub":"x"}', jwk) if name in JWS_ALL and name != "none" else \
                R.b64e(b'{"alg":"%s"}' % name.encode()) + "." + R.b64e(b'{"sub":"x"}') + "."
        except Exception:  # noqa
            valid = "e30.e30."
        h, p, s_ = valid.split(".")
        try:
            if op == 0:
                jws.serialize_compact(hdr, b"payload", key, **kw)
            elif op == 1:
                jws.serialize_json({"protected": hdr}, b"payload", key, **kw)
            elif op == 2:
                jws.deserialize_compact(valid, key, **kw)
            elif op == 3:
                jws.deserialize_json({"payload": p, "protected": h, "signature": s_}, key, **kw)
            elif op == 4:
                jwt.encode(hdr, {"sub": "x"}, key, **kw)
            else:
                jwt.decode(valid, key, **kw)
            returned, exc = True, None
        except Exception as e:  # noqa
            returned, exc = False, e
        ok_name = spec_jws(name, al)
        bad = (returned and not ok_name) or (returned and name == "none" and op in (2, 3, 5))
        if not returned and not ok_name and not isinstance(exc, (UnsupportedAlgorithmError, ValueError)):
            bad = True
        return {"violated": bad, "key": "c05-jws-op", "detail": "op=%d alg=%r allow=%r via_registry=%s -> %s" %
                (op, name, al, via_registry, "returned" if returned else type(exc).__name__)}
    return rt.replay_by_rerun(globals(), func, call, key="c05-" + func)
