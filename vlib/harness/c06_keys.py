"""C06 harnesses: an operation succeeds only with a key suited to the algorithm and the operation (type, curve, size, use,
key_ops, private material).  Fake native keys; symbolic: algorithm, key kind, oct length / RSA modulus size (ints), use, key_ops,
private/public, operation."""
from typing import Optional, List
import warnings
from joserfc import jws, jwe
from joserfc.jwk import OctKey, RSAKey, ECKey, OKPKey
from joserfc.jwe import JWERegistry
from joserfc.rfc7797 import serialize_compact as s7797_compact, deserialize_compact as d7797_compact
from joserfc.errors import JoseError
from vlib import ice, rt
from vlib.harness_loader import load as _load

C16 = _load("c16_errors.py")

JWS_ALGS = ["HS256", "HS384", "HS512", "RS256", "RS384", "RS512", "PS256", "PS384", "PS512", "ES256", "ES384", "ES512", "ES256K", "EdDSA"]
KINDS = ["oct", "RSA", "P-256", "P-384", "P-521", "secp256k1", "Ed25519", "Ed448", "X25519", "X448"]
USES = [None, "sig", "enc"]
OPSETS = [None, [], ["sign"], ["verify"], ["sign", "verify"], ["encrypt", "decrypt"], ["wrapKey", "unwrapKey"], ["deriveKey"], ["encrypt"], ["unwrapKey"], ["deriveBits"]]
USE_OPS = {"sig": {"sign", "verify"}, "enc": {"encrypt", "decrypt", "wrapKey", "unwrapKey", "deriveKey", "deriveBits"}}
ES_CURVE = {"ES256": "P-256", "ES384": "P-384", "ES512": "P-521", "ES256K": "secp256k1"}


def consistent(use, ops):
    return use is None or ops is None or all(o in USE_OPS[use] for o in ops)


def mk_key(kind, private, use, ops, oct_len=32, rsa_bits=2048, kid="k"):
    params = {}
    if use is not None:
        params["use"] = use
    if ops is not None:
        params["key_ops"] = list(ops)
    if kind == "oct":
        return OctKey(bytes(oct_len), {"kty": "oct", "k": "kk", **params})
    if kind == "RSA":
        native = ice.FakeRSAPrivate(kid, rsa_bits) if private else ice.FakeRSAPublic(kid, rsa_bits)
        d = {"kty": "RSA", "n": "nn", "e": "AQAB", **params}
        if private:
            d["d"] = "dd"
        return RSAKey(native, d)
    if kind in ice.CURVES:
        native = ice.FakeECPrivate(kid, kind) if private else ice.FakeECPublic(kid, kind)
        d = {"kty": "EC", "crv": kind, "x": "xx", "y": "yy", **params}
        if private:
            d["d"] = "dd"
        return ECKey(native, d)
    cls = {"Ed25519": (ice.FakeEd25519Public, ice.FakeEd25519Private), "Ed448": (ice.FakeEd448Public, ice.FakeEd448Private),
           "X25519": (ice.FakeX25519Public, ice.FakeX25519Private), "X448": (ice.FakeX448Public, ice.FakeX448Private)}[kind]
    native = cls[1](kid) if private else cls[0](kid)
    d = {"kty": "OKP", "crv": kind, "x": "xx", **params}
    if private:
        d["d"] = "dd"
    return OKPKey(native, d)


def jws_row(alg, kind, private, use, ops, signing):
    """the statement's table for JWS"""
    if alg.startswith("HS"):
        ok = kind == "oct"
    elif alg[:2] in ("RS", "PS"):
        ok = kind == "RSA"
    elif alg in ES_CURVE:
        ok = kind == ES_CURVE[alg]
    else:
        ok = kind in ("Ed25519", "Ed448")
    if use is not None and use != "sig":
        ok = False
    if ops is not None and ("sign" if signing else "verify") not in ops:
        ok = False
    if signing and kind != "oct" and not private:
        ok = False
    return ok


def _jws(alg_i, kind_i, private, use_i, ops_i, op, vr):
    rt.tick()
    alg, kind, use, ops = JWS_ALGS[alg_i], KINDS[kind_i], USES[use_i], OPSETS[ops_i]
    key = mk_key(kind, private, use, ops)
    env = ice.Env(True, [vr])
    env.ecdsa_rs = (3, 4)
    hdr = {"alg": alg}
    if op in (4, 5):
        hdr.update({"b64": False, "crit": ["b64"]})
    env.bind_b64(b"HDRSEG", b"HDRJSON")
    env.bind_json(b"HDRJSON", lambda: ice.jcopy(hdr))
    env.bind_b64(b"PAYSEG", b"payload")
    siglen = {"HS256": 32, "HS384": 48, "HS512": 64, "ES256": 64, "ES384": 96, "ES512": 132, "ES256K": 64}.get(alg, 64)
    env.bind_b64(b"SIGSEG", bytes(siglen))
    signing = op in (0, 2, 4)
    with env.installed():
        try:
            if op == 0:
                jws.serialize_compact(dict(hdr), b"payload", key, algorithms=[alg])
            elif op == 1:
                jws.deserialize_compact(b"HDRSEG.PAYSEG.SIGSEG", key, algorithms=[alg])
            elif op == 2:
                jws.serialize_json({"protected": dict(hdr)}, b"payload", key, algorithms=[alg])
            elif op == 3:
                jws.deserialize_json({"payload": "PAYSEG", "protected": "HDRSEG", "signature": "SIGSEG"}, key, algorithms=[alg])
            elif op == 4:
                s7797_compact(dict(hdr), b"payload", key, algorithms=[alg])
            else:
                d7797_compact(b"HDRSEG.PAYSEG.SIGSEG", key, algorithms=[alg])
            returned = True
        except ice.HarnessError:
            raise
        except Exception:  # noqa
            returned = False
    return (not returned) or jws_row(alg, kind, private, use, ops, signing)


def jws_key(alg_i: int, kind_i: int, private: bool, use_i: int, ops_i: int, op: int, vr: bool) -> bool:
    """
    PRE: 0 <= alg_i < 14 and 0 <= kind_i < 10 and 0 <= use_i <= 2 and 0 <= ops_i < 11 and 0 <= op <= 5
    PRE: consistent(USES[use_i], OPSETS[ops_i])
    POST: _
    """
    return _jws(alg_i, kind_i, private, use_i, ops_i, op, vr)


RIGHT_JWS = [0, 0, 0, 1, 1, 1, 1, 1, 1, 2, 3, 4, 5, 6]


def jws_kind(alg_i: int, kind_i: int, private: bool, op: int, vr: bool) -> bool:
    """
    PRE: 0 <= alg_i < 14 and 0 <= kind_i < 10 and 0 <= op <= 5
    POST: _
    """
    return _jws(alg_i, kind_i, private, 0, 0, op, vr)


def jws_use_ops(alg_i: int, use_i: int, ops_i: int, private: bool, op: int, vr: bool) -> bool:
    """
    PRE: 0 <= alg_i < 14 and 0 <= use_i <= 2 and 0 <= ops_i < 11 and 0 <= op <= 5
    PRE: consistent(USES[use_i], OPSETS[ops_i])
    POST: _
    """
    return _jws(alg_i, RIGHT_JWS[alg_i], private, use_i, ops_i, op, vr)


def jws_witness(alg_i: int, kind_i: int, private: bool, use_i: int, ops_i: int, op: int, vr: bool) -> bool:
    """
    pre: 10 <= alg_i < 12 and 3 <= kind_i < 5 and 1 <= use_i <= 1 and 3 <= ops_i < 5 and 0 <= op <= 1
    pre: consistent(USES[use_i], OPSETS[ops_i])
    post: _
    """
    alg, kind = JWS_ALGS[alg_i], KINDS[kind_i]
    key = mk_key(kind, private, USES[use_i], OPSETS[ops_i])
    env = ice.Env(True, [vr])
    env.ecdsa_rs = (3, 4)
    env.bind_b64(b"HDRSEG", b"HDRJSON")
    env.bind_json(b"HDRJSON", lambda: {"alg": alg})
    env.bind_b64(b"PAYSEG", b"payload")
    env.bind_b64(b"SIGSEG", bytes(132))
    with env.installed():
        try:
            if op == 0:
                jws.serialize_compact({"alg": alg}, b"payload", key, algorithms=[alg])
            else:
                jws.deserialize_compact(b"HDRSEG.PAYSEG.SIGSEG", key, algorithms=[alg])
        except Exception:  # noqa
            return True
    return not (alg == "ES512" and op == 1 and use_i == 1 and ops_i == 4)


# ------------------------------------------------------------------ JWE
JWE_ALGS = ["dir", "A128KW", "A192KW", "A256KW", "A128GCMKW", "A256GCMKW", "RSA1_5", "RSA-OAEP", "RSA-OAEP-256", "ECDH-ES", "ECDH-ES+A128KW",
            "PBES2-HS256+A128KW"]
KW_SIZE = {"A128KW": 16, "A192KW": 24, "A256KW": 32, "A128GCMKW": 16, "A256GCMKW": 32}
_P = None


def jpatches():
    global _P
    if _P is None:
        _P = C16.jwe_patches()
    return _P


def jwe_row(alg, kind, private, use, ops, encrypting, oct_len, rsa_bits, cek_len):
    if alg == "dir":
        ok = kind == "oct" and oct_len == cek_len
        need = None
    elif alg in KW_SIZE:
        ok = kind == "oct" and oct_len == KW_SIZE[alg]
        need = "wrapKey" if encrypting else "unwrapKey"
    elif alg.startswith("RSA"):
        ok = kind == "RSA" and (not encrypting or rsa_bits >= 2048)
        need = "encrypt" if encrypting else "decrypt"
    elif alg.startswith("PBES2"):
        ok = kind == "oct"
        need = "deriveKey"
    else:
        ok = kind in ("P-256", "P-384", "P-521", "secp256k1", "X25519", "X448")
        need = None
    if use is not None and use != "enc":
        ok = False
    if need is not None and ops is not None and need not in ops:
        ok = False
    if not encrypting and kind != "oct" and not private:
        ok = False
    return ok


def _jwe_call(form, encrypting, hdr, key, alg, encname, tok_parts=None):
    """form 0: compact; 1: flattened JSON, key given to the call; 2: flattened JSON, key attached with add_recipient (encrypt only;
    decrypt: key returned by a callable); 3: general JSON, key given to the call"""
    algs = [alg, encname]
    if encrypting:
        if form == 0:
            return jwe.encrypt_compact(dict(hdr), b"plaintext", key, algorithms=algs)
        cls = jwe.GeneralJSONEncryption if form == 3 else jwe.FlattenedJSONEncryption
        obj = cls({k: v for k, v in hdr.items() if k != "alg"}, b"plaintext")
        if form == 2:
            obj.add_recipient({"alg": alg}, key)
            return jwe.encrypt_json(obj, None, algorithms=algs)
        obj.add_recipient({"alg": alg})
        return jwe.encrypt_json(obj, key, algorithms=algs)
    prot, ek, iv, ct, tag = tok_parts
    if form == 0:
        return jwe.decrypt_compact(".".join(tok_parts), key, algorithms=algs)
    v = {"protected": prot, "iv": iv, "ciphertext": ct, "tag": tag}
    if form == 3:
        v["recipients"] = [{"encrypted_key": ek} if ek else {}]
    elif ek:
        v["encrypted_key"] = ek
    return jwe.decrypt_json(v, (lambda recipient: key) if form == 2 else key, algorithms=algs)


def _jwe(alg_i, kind_i, private, use_i, ops_i, oct_len, rsa_bits, encrypting, enc_i, epk_kind_i, v0, v1, form=0):
    rt.tick()
    alg, kind, use, ops = JWE_ALGS[alg_i], KINDS[kind_i], USES[use_i], OPSETS[ops_i]
    if alg.startswith("PBES2"):
        oct_len = 16 + 16 * (oct_len % 2)          # a password has no size rule: two representative lengths
    key = mk_key(kind, private, use, ops, oct_len, rsa_bits)
    encname, cek_len = [("A128GCM", 16), ("A256GCM", 32), ("A128CBC-HS256", 32)][enc_i]
    hdr = {"alg": alg, "enc": encname}
    if not encrypting:
        if "GCMKW" in alg:
            hdr["iv"], hdr["tag"] = "KWIV", "KWTAG"
        if alg.startswith("PBES2"):
            hdr["p2s"], hdr["p2c"] = "P2S", 1000
        if alg.startswith("ECDH"):
            ek = KINDS[epk_kind_i]
            hdr["epk"] = {"kty": "EC", "crv": ek, "x": "EPKX", "y": "EPKY"} if ek in ice.CURVES else {"kty": "OKP", "crv": ek, "x": "EPKX"}
    env = C16.jwe_env(hdr, [v0, v1, v1])
    env.bind_b64(b"IVSEG", bytes(16 if "CBC" in encname else 12))
    env.ceks = [bytes(cek_len), bytes(cek_len)]
    with env.installed(jpatches()):
        try:
            ek = "" if alg in ("dir", "ECDH-ES") else "EKSEG"
            _jwe_call(form, encrypting, hdr, key, alg, encname, ("PROTSEG", ek, "IVSEG", "CTSEG", "TAGSEG"))
            returned = True
        except ice.HarnessError:
            raise
        except Exception:  # noqa
            returned = False
    if not returned:
        return True
    if not jwe_row(alg, kind, private, use, ops, encrypting, oct_len, rsa_bits, cek_len):
        return False
    if alg.startswith("ECDH") and not encrypting and KINDS[epk_kind_i] != kind:
        return False                     # both parties must be on one curve
    return True


def jwe_key(alg_i: int, kind_i: int, private: bool, use_i: int, ops_i: int, oct_len: int, rsa_bits: int, encrypting: bool, enc_i: int, v0: bool, v1: bool) -> bool:
    """
    PRE: 0 <= alg_i < 12 and 0 <= kind_i < 10 and 0 <= use_i <= 2 and 0 <= ops_i < 11 and 0 <= enc_i <= 2
    PRE: 0 <= oct_len <= 64 and 512 <= rsa_bits <= 8192
    PRE: consistent(USES[use_i], OPSETS[ops_i])
    POST: _
    """
    return _jwe(alg_i, kind_i, private, use_i, ops_i, oct_len, rsa_bits, encrypting, enc_i, kind_i, v0, v1)


RIGHT_JWE = [0, 0, 0, 0, 0, 0, 1, 1, 1, 2, 2, 0]


def jwe_kind(alg_i: int, kind_i: int, private: bool, oct_len: int, rsa_bits: int, encrypting: bool, enc_i: int, v0: bool, v1: bool) -> bool:
    """
    PRE: 0 <= alg_i < 12 and 0 <= kind_i < 10 and 0 <= enc_i <= 2
    PRE: 0 <= oct_len <= 64 and 512 <= rsa_bits <= 8192
    POST: _
    """
    return _jwe(alg_i, kind_i, private, 0, 0, oct_len, rsa_bits, encrypting, enc_i, kind_i, v0, v1)


def jwe_use_ops(alg_i: int, use_i: int, ops_i: int, private: bool, oct_len: int, encrypting: bool, v0: bool, v1: bool) -> bool:
    """
    PRE: 0 <= alg_i < 12 and 0 <= use_i <= 2 and 0 <= ops_i < 11
    PRE: oct_len in (16, 24, 32)
    PRE: consistent(USES[use_i], OPSETS[ops_i])
    POST: _
    """
    return _jwe(alg_i, RIGHT_JWE[alg_i], private, use_i, ops_i, oct_len, 2048, encrypting, 0, RIGHT_JWE[alg_i], v0, v1)


def jwe_kind_json(alg_i: int, kind_i: int, private: bool, encrypting: bool, form: int, v0: bool, v1: bool) -> bool:
    """
    PRE: 0 <= alg_i < 12 and 0 <= kind_i < 10 and 1 <= form <= 3
    POST: _
    """
    n = KW_SIZE.get(JWE_ALGS[alg_i], 16)
    return _jwe(alg_i, kind_i, private, 0, 0, n, 2048, encrypting, 0, kind_i, v0, v1, form)


def jwe_use_ops_json(alg_i: int, use_i: int, ops_i: int, private: bool, encrypting: bool, form: int, v0: bool, v1: bool) -> bool:
    """
    PRE: 0 <= alg_i < 12 and 0 <= use_i <= 2 and 0 <= ops_i < 11 and 1 <= form <= 3
    PRE: consistent(USES[use_i], OPSETS[ops_i])
    POST: _
    """
    n = KW_SIZE.get(JWE_ALGS[alg_i], 16)
    return _jwe(alg_i, RIGHT_JWE[alg_i], private, use_i, ops_i, n, 2048, encrypting, 0, RIGHT_JWE[alg_i], v0, v1, form)


def jwe_ecdh_curves(kw: bool, kind_i: int, epk_kind_i: int, private: bool, v0: bool, v1: bool) -> bool:
    """
    pre: 2 <= kind_i < 10 and 2 <= epk_kind_i < 10
    post: _
    """
    return _jwe(10 if kw else 9, kind_i, private, 0, 0, 32, 2048, False, 0, epk_kind_i, v0, v1)


def jwe_witness(alg_i: int, kind_i: int, private: bool, oct_len: int, encrypting: bool, v0: bool, v1: bool) -> bool:
    """
    pre: 4 <= alg_i < 6 and 0 <= kind_i < 2 and 0 <= oct_len <= 64
    post: _
    """
    alg, kind = JWE_ALGS[alg_i], KINDS[kind_i]
    key = mk_key(kind, private, None, None, oct_len, 2048)
    hdr = {"alg": alg, "enc": "A128GCM"}
    if not encrypting:
        if "GCMKW" in alg:
            hdr["iv"], hdr["tag"] = "KWIV", "KWTAG"
        if alg.startswith("PBES2"):
            hdr["p2s"], hdr["p2c"] = "P2S", 1000
        if alg.startswith("ECDH"):
            hdr["epk"] = {"kty": "EC", "crv": kind, "x": "EPKX", "y": "EPKY"} if kind in ice.CURVES else {"kty": "OKP", "crv": kind, "x": "EPKX"}
    env = C16.jwe_env(hdr, [v0, v1, v1])
    with env.installed(jpatches()):
        try:
            if encrypting:
                jwe.encrypt_compact(dict(hdr), b"plaintext", key, algorithms=[alg, "A128GCM"])
            else:
                ek = b"" if alg in ("dir", "ECDH-ES") else b"EKSEG"
                jwe.decrypt_compact(b"PROTSEG." + ek + b".IVSEG.CTSEG.TAGSEG", key, algorithms=[alg, "A128GCM"])
        except Exception:  # noqa
            return True
    return not (alg == "A256GCMKW" and not encrypting)


# ------------------------------------------------------------------ replay with real keys
REALK = {"oct": "oct32", "RSA": "RSA2048"}


def _real_key(R, kind, private, use, ops, oct_len=32, rsa_bits=2048):
    from joserfc.jwk import JWKRegistry
    if kind == "oct":
        jwk = {"kty": "oct", "k": R.b64e(bytes((i * 3 + 1) % 256 for i in range(oct_len)))}
    elif kind == "RSA":
        try:
            # a key of exactly the modulus size the model chose (sizes that are not a multiple of 8 included)
            jwk = dict(R.test_key("RSA%d" % rsa_bits)) if 1024 <= rsa_bits <= 4096 else dict(R.test_key("RSA1024" if rsa_bits < 2048 else "RSA2048"))
        except Exception:  # noqa
            jwk = dict(R.test_key("RSA1024" if rsa_bits < 2048 else "RSA2048"))
    else:
        jwk = dict(R.test_key(kind))
    full = dict(jwk)
    if not private and kind != "oct":
        jwk = R.public_jwk(jwk)
    if use is not None:
        jwk["use"] = use
    if ops is not None:
        jwk["key_ops"] = list(ops)
    return JWKRegistry.import_key(jwk), full


def replay(func, call):
    warnings.simplefilter("ignore")
    from vlib import refjose as R
    import json
    args = eval("(" + call + ",)")
    if func in ("jws_key", "jws_kind", "jws_use_ops"):
        if func == "jws_kind":
            alg_i, kind_i, private, op, vr = args
            use_i = ops_i = 0
        elif func == "jws_use_ops":
            alg_i, use_i, ops_i, private, op, vr = args
            kind_i = RIGHT_JWS[alg_i]
        else:
            alg_i, kind_i, private, use_i, ops_i, op, vr = args
        alg, kind, use, ops = JWS_ALGS[alg_i], KINDS[kind_i], USES[use_i], OPSETS[ops_i]
        try:
            key, full = _real_key(R, kind, private, use, ops)
        except Exception as e:  # noqa
            return {"violated": False, "detail": "key refused at import: %r" % (e,)}
        hdr = {"alg": alg}
        if op in (4, 5):
            hdr.update({"b64": False, "crit": ["b64"]})
        signing = op in (0, 2, 4)
        # a token that is valid for the offered key if that is at all possible (incl. the classic "HMAC with the public key" trick)
        hseg = R.b64e(json.dumps(hdr, separators=(",", ":")).encode())
        pseg = "payload" if op in (4, 5) else R.b64e(b"payload")
        si = (hseg + "." + pseg).encode()
        sig = bytes(64)
        try:
            if alg.startswith("HS") and kind != "oct":
                import hmac, hashlib
                pem = key.as_pem(private=False)
                sig = hmac.new(pem, si, getattr(hashlib, "sha" + alg[2:])).digest()
            elif alg in ES_CURVE and kind in R.CURVES:
                from cryptography.hazmat.primitives.asymmetric import ec, utils
                r_, s_ = utils.decode_dss_signature(R.priv_native(full).sign(si, ec.ECDSA(R.HASH[R.ES[alg][1]]())))
                L = R.CURVES[kind][1]
                sig = r_.to_bytes(L, "big") + s_.to_bytes(L, "big")
            else:
                sig = R.jws_sign(alg, full, si)
        except Exception:  # noqa
            pass
        tok = hseg + "." + pseg + "." + R.b64e(sig if vr else bytes([sig[0] ^ 1]) + sig[1:])
        try:
            if op == 0:
                jws.serialize_compact(dict(hdr), b"payload", key, algorithms=[alg])
            elif op == 1:
                jws.deserialize_compact(tok, key, algorithms=[alg])
            elif op == 2:
                jws.serialize_json({"protected": dict(hdr)}, b"payload", key, algorithms=[alg])
            elif op == 3:
                jws.deserialize_json({"payload": pseg, "protected": hseg, "signature": tok.split(".")[2]}, key, algorithms=[alg])
            elif op == 4:
                s7797_compact(dict(hdr), b"payload", key, algorithms=[alg])
            else:
                d7797_compact(tok, key, algorithms=[alg])
            returned, err = True, None
        except Exception as e:  # noqa
            returned, err = False, e
        ok = jws_row(alg, kind, private, use, ops, signing)
        return {"violated": returned and not ok, "key": "c06-jws", "detail": "alg=%s key=%s private=%s use=%s key_ops=%s op=%d -> %s; the statement %s it" %
                (alg, kind, private, use, ops, op, "succeeded" if returned else "failed (%s)" % type(err).__name__, "allows" if ok else "forbids")}
    if func in ("jwe_key", "jwe_ecdh_curves", "jwe_kind", "jwe_use_ops", "jwe_kind_json", "jwe_use_ops_json"):
        form = 0
        if func == "jwe_kind_json":
            alg_i, kind_i, private, encrypting, form, v0, v1 = args
            use_i = ops_i = 0
            epk_kind_i, oct_len, rsa_bits, enc_i = kind_i, KW_SIZE.get(JWE_ALGS[alg_i], 16), 2048, 0
        elif func == "jwe_use_ops_json":
            alg_i, use_i, ops_i, private, encrypting, form, v0, v1 = args
            kind_i = epk_kind_i = RIGHT_JWE[alg_i]
            oct_len, rsa_bits, enc_i = KW_SIZE.get(JWE_ALGS[alg_i], 16), 2048, 0
        elif func == "jwe_key":
            alg_i, kind_i, private, use_i, ops_i, oct_len, rsa_bits, encrypting, enc_i, v0, v1 = args
            epk_kind_i = kind_i
        elif func == "jwe_kind":
            alg_i, kind_i, private, oct_len, rsa_bits, encrypting, enc_i, v0, v1 = args
            use_i = ops_i = 0
            epk_kind_i = kind_i
        elif func == "jwe_use_ops":
            alg_i, use_i, ops_i, private, oct_len, encrypting, v0, v1 = args
            kind_i = epk_kind_i = RIGHT_JWE[alg_i]
            rsa_bits, enc_i = 2048, 0
        else:
            kw, kind_i, epk_kind_i, private, v0, v1 = args
            alg_i, use_i, ops_i, oct_len, rsa_bits, encrypting, enc_i = (10 if kw else 9), 0, 0, 32, 2048, False, 0
        alg, kind, use, ops = JWE_ALGS[alg_i], KINDS[kind_i], USES[use_i], OPSETS[ops_i]
        encname, cek_len = [("A128GCM", 16), ("A256GCM", 32), ("A128CBC-HS256", 32)][enc_i]
        try:
            key, full = _real_key(R, kind, private, use, ops, oct_len, rsa_bits)
        except Exception as e:  # noqa
            return {"violated": False, "detail": "key refused at import: %r" % (e,)}
        try:
            if encrypting:
                _jwe_call(form, True, {"alg": alg, "enc": encname}, key, alg, encname)
            else:
                # an honest token for this key when the independent implementation can make one; wrong-size AES keys are used as the
                # primitive would use them (any valid AES size)
                peer = full if kind == KINDS[epk_kind_i] else R.test_key(KINDS[epk_kind_i])
                try:
                    if alg.startswith("ECDH") and kind != KINDS[epk_kind_i]:
                        add, ek, cek = R.key_manage(alg, encname, R.public_jwk(peer))
                    elif alg in KW_SIZE and kind == "oct" and oct_len in (16, 24, 32):
                        from cryptography.hazmat.primitives.keywrap import aes_key_wrap
                        from cryptography.hazmat.primitives.ciphers.aead import AESGCM
                        cek = bytes(range(cek_len))
                        kb = R.b64d(full["k"])
                        if "GCMKW" in alg:
                            out = AESGCM(kb).encrypt(b"\x07" * 12, cek, None)
                            add, ek = {"iv": R.b64e(b"\x07" * 12), "tag": R.b64e(out[-16:])}, out[:-16]
                        else:
                            add, ek = {}, aes_key_wrap(kb, cek)
                    else:
                        add, ek, cek = R.key_manage(alg, encname, R.public_jwk(full) if full["kty"] != "oct" else full, p2s=b"salt-input", p2c=1000)
                except Exception:  # noqa
                    add, ek, cek = {}, bytes(24), bytes(cek_len)
                hdr = {"alg": alg, "enc": encname, **add}
                hseg = R.b64e(json.dumps(hdr).encode())
                iv = bytes(16 if "CBC" in encname else 12)
                try:
                    ct, tag = R.content_encrypt(encname, cek if len(cek) == cek_len else bytes(cek_len), iv, hseg.encode(), b"plaintext")
                except Exception:  # noqa
                    ct, tag = b"x" * 16, bytes(16)
                _jwe_call(form, False, hdr, key, alg, encname, (hseg, R.b64e(ek), R.b64e(iv), R.b64e(ct), R.b64e(tag)))
            returned, err = True, None
        except Exception as e:  # noqa
            returned, err = False, e
        ok = jwe_row(alg, kind, private, use, ops, encrypting, oct_len, rsa_bits, cek_len)
        if alg.startswith("ECDH") and not encrypting and KINDS[epk_kind_i] != kind:
            ok = False
        return {"violated": returned and not ok, "key": "c06-jwe", "detail": "alg=%s enc=%s key=%s (oct %d octets / RSA %d bits) private=%s use=%s key_ops=%s %s -> %s; the statement %s it" %
                (alg, encname, kind, oct_len, rsa_bits, private, use, ops, ("encrypt" if encrypting else "decrypt") + " (%s)" % ["compact", "flattened JSON, key given to the call", "flattened JSON, key attached to the recipient / callable", "general JSON"][form],
                 "succeeded" if returned else "failed (%s)" % type(err).__name__, "allows" if ok else "forbids")}
    return {"violated": None, "detail": "no replay for " + func}
