"""C09 harnesses: JWT encode/decode over the JWS and JWE transports (ideal round trip + adversarial decode)."""
from typing import Optional, List, Union
import json, random
from joserfc import jwt, jws, jwe
from joserfc.jwk import KeySet
from joserfc.jwe import JWERegistry
from joserfc.jws import JWSRegistry
from joserfc.errors import JoseError, InvalidPayloadError, BadSignatureError
from vlib import ice, rt
from vlib.harness_loader import load as _load

C16 = _load("c16_errors.py")
val = C16.val
NK = C16.NK
JWS_KEY = ice.fake_key("oct32", kid="s1")
JWS_KEY2 = ice.fake_key("oct32", kid="s2")
EC_KEY = ice.fake_key("P-256", kid="e1", private=True)
KW_KEY = ice.fake_key("oct16", kid="w1")
KW_KEY2 = ice.fake_key("oct16", kid="w2")
_P = None


def patches():
    global _P
    if _P is None:
        _P = C16.patches()
    return _P


def transport(t):
    """-> (alg header, key, key set, registry or None)"""
    if t == 0:
        return {"alg": "HS256"}, JWS_KEY, KeySet([JWS_KEY, JWS_KEY2]), None
    if t == 1:
        return {"alg": "ES256"}, EC_KEY, KeySet([EC_KEY, ice.fake_key("P-256", kid="e2", private=True)]), None
    if t == 2:
        return {"alg": "A128KW", "enc": "A128GCM"}, KW_KEY, KeySet([KW_KEY, KW_KEY2]), JWERegistry()
    return {"alg": "ECDH-ES", "enc": "A128CBC-HS256"}, EC_KEY, KeySet([EC_KEY, ice.fake_key("P-256", kid="e2", private=True)]), JWERegistry()


def encode_decode(t: int, c_kind: int, typ_kind: int, typ: str, extra_hdr: bool, n: int, s: str, c2: bool, keyset: bool, pick: int) -> bool:
    """
    PRE: 0 <= t <= 3 and 0 <= typ_kind <= 2 and len(typ) == 0 and 0 <= c_kind < NK and -2 <= n <= 2 and len(s) <= 1 and 0 <= pick <= 2
    PRE: keyset or pick == 0
    POST: _
    """
    # pick == 2: the key set holds a single key (its kid must still be recorded in the header)
    rt.tick()
    base, key, ks, reg = transport(t)
    header = dict(base)
    if typ_kind == 1:
        header["typ"] = "at+jwt" + typ
    elif typ_kind == 2:
        header["typ"] = "JWT"
    if extra_hdr:
        header["cty"] = "x"
    claims = {"sub": val(c_kind, n, s)}
    if c2:
        claims["nested"] = {"a": [n, {"b": s}], "iss": "ü"}
    given_header, given_claims = ice.jcopy(header), ice.jcopy(claims)
    env = ice.Env(False)
    env.ecdsa_rs = (11, 13)
    if keyset and pick == 2:
        ks = KeySet([key])
    k = ks if keyset else key
    with env.installed(patches() + [(random, "choice", lambda seq: seq[pick % len(seq)])]):
        try:
            tok = jwt.encode(header, claims, k, registry=reg)
            out = jwt.decode(tok, k, registry=reg)
            # what a caller does with the returned claims must not show up in a later decode of the same token
            first = ice.jcopy(out.claims)
            out.claims["injected"] = True
            out2 = jwt.decode(tok, k, registry=reg)
            if out2.claims != first or out2.claims is out.claims:
                return False
            del out.claims["injected"]
        except ice.HarnessError:
            raise
        except Exception:  # noqa
            return False
    if header != given_header:
        return False                         # encoding must not alter the caller's header
    want = {"typ": "JWT", **given_header}
    got = dict(out.header)
    added = {"kid"} if keyset else set()
    if t == 3:
        added |= {"epk"}
    if {k_: v for k_, v in got.items() if k_ not in added} != want:
        return False
    if keyset and got.get("kid") not in [x.kid for x in ks.keys]:
        return False
    if out.claims != given_claims:
        return False
    # the claims text handed to the transport is json.dumps(claims, ensure_ascii=False, separators=(",", ":"))
    kw = [d for d in env.dumps_kwargs if d.get("ensure_ascii") is False]
    return len(kw) == 1 and kw[0].get("separators") == (",", ":")


def decode_adversarial(t: int, p_kind: int, n: int, s: str, payload_fail: int, v0: bool, v1: bool) -> bool:
    """
    PRE: 0 <= t <= 3 and 0 <= p_kind < NK and -2 <= n <= 2 and len(s) <= 2 and 0 <= payload_fail <= 3
    POST: _
    """
    rt.tick()
    base, key, ks, reg = transport(t)
    hdr = dict(base)
    if t == 3:
        hdr["epk"] = {"kty": "EC", "crv": "P-256", "x": "EPKX", "y": "EPKY"}
    payload_value = val(p_kind, n, s)
    if t < 2:
        env = C16.jws_env(hdr, 0, False, v0, payload_value, payload_fail)
        env.verdicts = [v0, v1]
        if t == 1:
            env.bind_b64(b"SIGSEG", bytes(64))
        token = b"HDRSEG.PAYSEG.SIGSEG"
        extra = []
    else:
        env = C16.jwe_env(hdr, [v0, v1, v1])
        env.bind_b64(b"IVSEG", bytes(12 if t == 2 else 16))
        env.ceks = [bytes(16 if t == 2 else 32)]
        env.plaintext = b"payload-octets"
        env.bind_json(b"payload-octets", C16.JSON_FAIL[payload_fail] if payload_fail else (lambda: ice.jcopy(payload_value)))
        token = b"PROTSEG." + (b"EKSEG" if t == 2 else b"") + b".IVSEG.CTSEG.TAGSEG"
        extra = patches()
    with env.installed(extra):
        try:
            out = jwt.decode(token, key, registry=reg)
            returned, err = True, None
        except ice.HarnessError:
            raise
        except Exception as e:  # noqa
            returned, err = False, e
    # integrity verdicts of the transport
    if t < 2:
        checks = env.of("compare") + env.of("verify")
        integrity = len(checks) == 1 and checks[0]["verdict"] is True
    elif t == 2:
        us, gs = env.of("unwrap"), [g for g in env.of("gcm_decrypt") if g["aad"] is not None]
        integrity = len(us) == 1 and us[0]["verdict"] and len(gs) == 1 and gs[0]["verdict"] is True
    else:
        cs = env.of("compare")
        integrity = len(cs) == 1 and cs[0]["verdict"] is True
    is_object = payload_fail == 0 and isinstance(payload_value, dict)
    if returned:
        return integrity and is_object and out.claims == payload_value
    if integrity and not is_object:
        return isinstance(err, InvalidPayloadError)        # not JSON / not an object -> the invalid-payload error
    if integrity and is_object:
        return False                                       # a valid token with an object payload must decode
    return True


def witness(t: int, p_kind: int, n: int, s: str, payload_fail: int, v0: bool, v1: bool) -> bool:
    """
    pre: 0 <= t <= 3 and 0 <= p_kind < NK and -2 <= n <= 2 and len(s) <= 2 and 0 <= payload_fail <= 3
    post: _
    """
    base, key, ks, reg = transport(t)
    hdr = dict(base)
    if t == 3:
        hdr["epk"] = {"kty": "EC", "crv": "P-256", "x": "EPKX", "y": "EPKY"}
    if t < 2:
        env = C16.jws_env(hdr, 0, False, v0, val(p_kind, n, s), payload_fail)
        env.verdicts = [v0, v1]
        if t == 1:
            env.bind_b64(b"SIGSEG", bytes(64))
        token, extra = b"HDRSEG.PAYSEG.SIGSEG", []
    else:
        env = C16.jwe_env(hdr, [v0, v1, v1])
        env.bind_b64(b"IVSEG", bytes(12 if t == 2 else 16))
        env.ceks = [bytes(16 if t == 2 else 32)]
        env.plaintext = b"payload-octets"
        pv = val(p_kind, n, s)
        env.bind_json(b"payload-octets", lambda: ice.jcopy(pv))
        token, extra = b"PROTSEG." + (b"EKSEG" if t == 2 else b"") + b".IVSEG.CTSEG.TAGSEG", patches()
    with env.installed(extra):
        try:
            jwt.decode(token, key, registry=reg)
        except Exception:  # noqa
            return True
    return t != 3


# ------------------------------------------------------------------ replay
def replay(func, call):
    import warnings
    warnings.simplefilter("ignore")
    from vlib import refjose as R
    from joserfc.jwk import JWKRegistry
    args = eval("(" + call + ",)")
    REAL = [("oct32", {"alg": "HS256"}, None), ("P-256", {"alg": "ES256"}, None), ("oct16", {"alg": "A128KW", "enc": "A128GCM"}, JWERegistry()),
            ("P-256", {"alg": "ECDH-ES", "enc": "A128CBC-HS256"}, JWERegistry())]
    if func == "encode_decode":
        t, c_kind, typ_kind, typ, extra_hdr, n, s, c2, keyset, pick = args
        kind, base, reg = REAL[t]
        j1, j2 = dict(R.test_key(kind), kid="k1"), dict(R._ephemeral(kind) if kind in R.CURVES else {"kty": "oct", "k": R.b64e(b"z" * (16 if t == 2 else 32))}, kid="k2")
        k = KeySet([JWKRegistry.import_key(j1)] + ([] if pick == 2 else [JWKRegistry.import_key(j2)])) if keyset else JWKRegistry.import_key(j1)
        header = dict(base)
        if typ_kind == 1:
            header["typ"] = "at+jwt" + typ
        elif typ_kind == 2:
            header["typ"] = "JWT"
        if extra_hdr:
            header["cty"] = "x"
        claims = {"sub": val(c_kind, n, s)}
        if c2:
            claims["nested"] = {"a": [n, {"b": s}], "iss": "ü"}
        gh, gc = json.loads(json.dumps(header)), json.loads(json.dumps(claims))
        oc = random.choice
        random.choice = lambda seq: seq[pick % len(seq)]
        try:
            tok = jwt.encode(header, claims, k, registry=reg)
            out = jwt.decode(tok, k, registry=reg)
            first = json.loads(json.dumps(out.claims))
            out.claims["injected"] = True
            out2 = jwt.decode(tok, k, registry=reg)
            later = None if out2.claims == first else "a second decode of the same token returns %r after the caller changed the first result" % (out2.claims,)
            del out.claims["injected"]
        except Exception as e:  # noqa
            return {"violated": True, "key": "c09-roundtrip", "detail": "encode/decode failed: %s %s (header=%r claims=%r)" % (type(e).__name__, e, gh, gc)}
        finally:
            random.choice = oc
        probs = [later] if later else []
        if keyset and out.header.get("kid") not in ("k1", "k2"):
            probs.append("the kid of the key picked from the key set is not in the decoded header %r" % (out.header,))
        if header != gh:
            probs.append("caller's header altered: %r -> %r" % (gh, header))
        got = {a: b for a, b in out.header.items() if a not in ("kid", "epk")}
        if got != {"typ": "JWT", **gh}:
            probs.append("decoded header %r != %r" % (got, {"typ": "JWT", **gh}))
        if out.claims != gc:
            probs.append("claims %r != %r" % (out.claims, gc))
        return {"violated": bool(probs), "key": "c09-roundtrip", "detail": "; ".join(probs) or "round trip fine"}
    if func == "decode_adversarial":
        t, p_kind, n, s, payload_fail, v0, v1 = args
        kind, base, reg = REAL[t]
        jwk = R.test_key(kind)
        key = JWKRegistry.import_key(jwk)
        pv = val(p_kind, n, s)
        payload = json.dumps(pv).encode()
        if payload_fail == 1:
            payload = b"not json"
        elif payload_fail == 2:
            payload = b'{"name":"Jos\xe9"}'
        elif payload_fail == 3:
            payload = b"[" * 100000 + b"]" * 100000
        if t < 2:
            tok = R.compact_sign(base, payload, jwk)
            if not v0:
                h, p, sg = tok.split(".")
                tok = h + "." + p + "." + R.b64e(b"\x00" + R.b64d(sg)[1:])
        else:
            add, ek, cek = R.key_manage(base["alg"], base["enc"], R.public_jwk(jwk) if jwk["kty"] != "oct" else jwk)
            tok = R.compact_encrypt({**base, **add}, payload, cek, ek, bytes(12 if t == 2 else 16))
            if not (v0 and v1):
                parts = tok.split(".")
                parts[4] = R.b64e(b"\x00" * 16)
                tok = ".".join(parts)
        try:
            out = jwt.decode(tok, key, registry=reg)
            returned, err = True, None
        except Exception as e:  # noqa
            returned, err = False, e
        integrity = v0 and (v1 or t < 2)
        is_object = payload_fail == 0 and isinstance(pv, dict)
        bad = (returned and not (integrity and is_object)) or (not returned and integrity and not is_object and not isinstance(err, InvalidPayloadError)) \
            or (not returned and integrity and is_object)
        return {"violated": bool(bad), "key": "c09-decode", "detail": "payload %r integrity=%s -> %s" % (payload[:40], integrity, "returned %r" % (out.claims,) if returned else type(err).__name__)}
    return {"violated": None, "detail": "witness"}
