"""C10 harnesses: ClaimsRegistry / JWTClaimsRegistry.validate against the statement's predicate (no stubs needed)."""
from typing import Optional, Union, List, Dict
import copy
from unittest import mock
import time as _time
from joserfc.rfc7519.registry import JWTClaimsRegistry, ClaimsRegistry
from joserfc.errors import ExpiredTokenError, InvalidTokenError, InvalidClaimError, MissingClaimError, JoseError
from vlib import rt

JV = Union[None, bool, int, str, List[str]]
SV = Union[None, bool, int, str]
OPEN = "open"


def lib(reg, claims):
    before = copy.deepcopy(claims)
    try:
        reg.validate(claims)
        r = "ok"
    except MissingClaimError:
        r = "missing"
    except ExpiredTokenError:
        r = "expired"
    except InvalidTokenError:
        r = "notyet"
    except InvalidClaimError:
        r = "invalid"
    if claims != before:
        return "modified"
    return r


def isnum(v):
    return isinstance(v, (int, float)) and not isinstance(v, bool)


def spec(now, leeway, claims, opts):
    """Set of acceptable outcomes according to the statement of C10 (independent of the implementation)."""
    errs = set()
    open_ = False
    for name, o in opts.items():
        if o and o.get("essential") and claims.get(name) is None:
            errs.add("missing")
    for name, v in claims.items():
        if name in ("exp", "nbf", "iat"):
            if isinstance(v, bool):
                open_ = True            # bool is an int in Python; the statement says "numbers": left open
            elif not isnum(v):
                errs.add("invalid")
            elif v != v:
                errs.add("invalid")
            elif name == "exp":
                if v < now - leeway:
                    errs.add("expired")
                elif v == now - leeway:
                    open_ = True
            elif v > now + leeway:
                errs.add("notyet")
        o = opts.get(name)
        if not o:
            continue
        if name == "aud":
            req = None
            if o.get("values") is not None and o.get("value") is not None:
                open_ = True
            if o.get("values") is not None:
                req = o["values"]
            elif o.get("value") is not None:
                req = [o["value"]]
            if req is not None:
                if not req or not all(req):
                    open_ = True        # empty / falsy requested audience: not settled by the statement
                auds = v if isinstance(v, list) else [v]
                if not any(r in auds for r in req):
                    errs.add("invalid")
            continue
        if isinstance(v, str) and v == "" and not o.get("allow_blank"):
            errs.add("invalid")
        if o.get("value") is not None and v != o["value"]:
            errs.add("invalid")
        if o.get("values") is not None and v not in o["values"]:
            errs.add("invalid")
    if open_:
        return OPEN
    return errs if errs else {"ok"}


def agree(r, s):
    if r == "modified":
        return False
    if s == OPEN:
        return True
    return r in s


def mkopt(ess: bool, blank: Optional[bool], value, values):
    o = {}
    if ess:
        o["essential"] = True
    if blank is not None:
        o["allow_blank"] = blank
    if value is not None:
        o["value"] = value
    if values is not None:
        o["values"] = values
    return o


# ---------------------------------------------------------------- time claims, unbounded integers
def time_ints(now: int, leeway: int, has_exp: bool, exp: int, has_nbf: bool, nbf: int, has_iat: bool, iat: int) -> bool:
    """
    pre: leeway >= 0
    post: _
    """
    rt.tick()
    claims = {}
    if has_nbf:
        claims["nbf"] = nbf
    if has_exp:
        claims["exp"] = exp
    if has_iat:
        claims["iat"] = iat
    r = lib(JWTClaimsRegistry(now=now, leeway=leeway), claims)
    return agree(r, spec(now, leeway, claims, {}))


def time_ints_witness(now: int, leeway: int, has_exp: bool, exp: int, has_nbf: bool, nbf: int, has_iat: bool, iat: int) -> bool:
    """
    pre: leeway >= 0
    post: _
    """
    claims = {}
    if has_nbf:
        claims["nbf"] = nbf
    if has_exp:
        claims["exp"] = exp
    if has_iat:
        claims["iat"] = iat
    r = lib(JWTClaimsRegistry(now=now, leeway=leeway), claims)
    return not (r == "ok" and has_exp and has_nbf and has_iat)


def time_reject_witness(now: int, leeway: int, exp: int) -> bool:
    """
    pre: leeway >= 0
    post: _
    """
    return lib(JWTClaimsRegistry(now=now, leeway=leeway), {"exp": exp}) != "expired"


# ---------------------------------------------------------------- time claims, every JSON type
def time_types(now: int, leeway: int, which: int, v: JV) -> bool:
    """
    pre: leeway >= 0 and 0 <= which <= 2
    pre: not isinstance(v, str) or len(v) <= 1
    pre: not isinstance(v, list) or (len(v) <= 1 and all(len(x) <= 1 for x in v))
    post: _
    """
    rt.tick()
    claims = {("exp", "nbf", "iat")[which]: v}
    r = lib(JWTClaimsRegistry(now=now, leeway=leeway), claims)
    return agree(r, spec(now, leeway, claims, {}))


# ---------------------------------------------------------------- exp with a request on it (check_value after the time check)
def time_with_request(now: int, leeway: int, which: int, v: int, ess: bool, value: Optional[int], values: Optional[List[int]]) -> bool:
    """
    pre: leeway >= 0 and 0 <= which <= 2
    pre: values is None or len(values) <= 2
    post: _
    """
    rt.tick()
    name = ("exp", "nbf", "iat")[which]
    claims = {name: v}
    opts = {name: mkopt(ess, None, value, values)}
    r = lib(JWTClaimsRegistry(now=now, leeway=leeway, **opts), claims)
    return agree(r, spec(now, leeway, claims, opts))


# ---------------------------------------------------------------- a claim without built-in rule, all option shapes
def generic_str(present: bool, v: JV, ess: bool, blank: Optional[bool], value: Optional[str], values: Optional[List[str]], jwt: bool) -> bool:
    """
    pre: not isinstance(v, str) or len(v) <= 1
    pre: not isinstance(v, list) or (len(v) <= 1 and all(len(x) <= 1 for x in v))
    pre: value is None or len(value) <= 1
    pre: values is None or (len(values) <= 2 and all(len(x) <= 1 for x in values))
    post: _
    """
    rt.tick()
    claims = {"iss": v} if present else {}
    opts = {"iss": mkopt(ess, blank, value, values)}
    reg = JWTClaimsRegistry(now=0, leeway=0, **opts) if jwt else ClaimsRegistry(**opts)
    r = lib(reg, claims)
    return agree(r, spec(0, 0, claims, opts))


def generic_witness(present: bool, v: JV, ess: bool, blank: Optional[bool], value: Optional[str], values: Optional[List[str]]) -> bool:
    """
    pre: not isinstance(v, str) or len(v) <= 1
    pre: not isinstance(v, list) or (len(v) <= 1 and all(len(x) <= 1 for x in v))
    pre: value is None or len(value) <= 1
    pre: values is None or (len(values) <= 2 and all(len(x) <= 1 for x in values))
    post: _
    """
    claims = {"iss": v} if present else {}
    opts = {"iss": mkopt(ess, blank, value, values)}
    r = lib(JWTClaimsRegistry(now=0, leeway=0, **opts), claims)
    return not (r == "ok" and present and value is not None and values is not None and ess)


def generic_scalar(v: SV, ess: bool, blank: Optional[bool], value: SV, values: Optional[List[int]]) -> bool:
    """
    pre: not isinstance(v, str) or len(v) <= 1
    pre: not isinstance(value, str) or len(value) <= 1
    pre: values is None or len(values) <= 2
    post: _
    """
    rt.tick()
    claims = {"x": v}
    opts = {"x": mkopt(ess, blank, value, values)}
    r = lib(JWTClaimsRegistry(now=0, leeway=0, **opts), claims)
    return agree(r, spec(0, 0, claims, opts))


# ---------------------------------------------------------------- aud
def aud_claim(present: bool, v: JV, ess: bool, value: Optional[str], values: Optional[List[str]]) -> bool:
    """
    pre: not isinstance(v, str) or len(v) <= 1
    pre: not isinstance(v, list) or (len(v) <= 2 and all(len(x) <= 1 for x in v))
    pre: value is None or len(value) <= 1
    pre: values is None or (len(values) <= 2 and all(len(x) <= 1 for x in values))
    post: _
    """
    rt.tick()
    claims = {"aud": v} if present else {}
    opts = {"aud": mkopt(ess, None, value, values)}
    r = lib(JWTClaimsRegistry(now=0, leeway=0, **opts), claims)
    return agree(r, spec(0, 0, claims, opts))


def aud_witness(v: List[str], values: List[str]) -> bool:
    """
    pre: len(v) <= 2 and all(len(x) <= 1 for x in v)
    pre: len(values) <= 2 and all(len(x) <= 1 for x in values)
    post: _
    """
    r = lib(JWTClaimsRegistry(now=0, leeway=0, aud={"values": values}), {"aud": v})
    return not (r == "invalid" and len(v) == 2 and len(values) == 2)


# ---------------------------------------------------------------- two claims: order / early return, unrequested claims ignored
def two_claims(order: bool, a: Optional[str], b: Optional[str], ess_a: bool, val_a: Optional[str], ess_b: bool, val_b: Optional[str], has_extra: bool, warm: bool) -> bool:
    """
    pre: a is None or len(a) <= 1
    pre: b is None or len(b) <= 1
    pre: val_a is None or len(val_a) <= 1
    pre: val_b is None or len(val_b) <= 1
    post: _
    """
    rt.tick()
    claims = {}
    if order:
        claims["sub"] = a
        if has_extra:
            claims["zzz"] = ""
        claims["jti"] = b
    else:
        claims["jti"] = b
        if has_extra:
            claims["zzz"] = ""
        claims["sub"] = a
    opts = {"sub": mkopt(ess_a, None, val_a, None), "jti": mkopt(ess_b, None, val_b, None)}
    reg = JWTClaimsRegistry(now=0, leeway=0, **opts)
    if warm:
        # a registry is built once and reused: an earlier validation (of a complete claims set) must not change the verdict
        try:
            reg.validate({"sub": val_a if val_a is not None else "x", "jti": val_b if val_b is not None else "y"})
        except JoseError:
            pass
    r = lib(reg, claims)
    return agree(r, spec(0, 0, claims, opts))


def aud_strings(v: str, as_list: bool, w: str, value: Optional[str], values: Optional[List[str]]) -> bool:
    """
    pre: len(v) <= 2 and len(w) <= 2
    pre: value is None or len(value) <= 2
    pre: values is None or (len(values) <= 1 and all(len(x) <= 2 for x in values))
    post: _
    """
    rt.tick()
    claims = {"aud": [v, w] if as_list else v}
    opts = {"aud": mkopt(False, None, value, values)}
    r = lib(JWTClaimsRegistry(now=1, leeway=0, **opts), claims)
    return agree(r, spec(1, 0, claims, opts))


def time_then_claim(now: int, leeway: int, order: bool, exp: int, nbf: int, iss: SV, val: Optional[str]) -> bool:
    """
    pre: leeway >= 0
    pre: not isinstance(iss, str) or len(iss) <= 1
    pre: val is None or len(val) <= 1
    post: _
    """
    rt.tick()
    claims = {"iss": iss, "exp": exp, "nbf": nbf} if order else {"nbf": nbf, "exp": exp, "iss": iss}
    opts = {"iss": mkopt(False, None, val, None)}
    r = lib(JWTClaimsRegistry(now=now, leeway=leeway, **opts), claims)
    return agree(r, spec(now, leeway, claims, opts))


# ---------------------------------------------------------------- now defaults to the current time
def default_now(t: int, leeway: int, exp: int, nbf: int) -> bool:
    """
    pre: leeway >= 0 and t >= 0
    post: _
    """
    rt.tick()
    with mock.patch.object(_time, "time", lambda: t):
        reg = JWTClaimsRegistry(leeway=leeway)
    claims = {"exp": exp, "nbf": nbf}
    r = lib(reg, claims)
    return agree(r, spec(t, leeway, claims, {}))


def replay(func, call):
    return rt.replay_by_rerun(globals(), func, call, key="c10-" + func)
