"""C11 / C12 / C13 / C14 harnesses on the JWK layer (fake native keys, opaque codecs, recording hash).

C11: member validation at import, import-then-export identity, PEM/DER export arguments.
C12: public-facing exports never contain private members; private export of a public key is an error.
C13: thumbprint = b64url(digest(JSON of exactly the required members, sorted, compact)); kid assignment rules.
C14: key-set lookup by kid, export/import of sets."""
from typing import Optional, List, Union
import hashlib, json
from joserfc.jwk import OctKey, RSAKey, ECKey, OKPKey, KeySet, JWKRegistry
from joserfc.errors import JoseError, InvalidKeyIdError
from vlib import ice, rt
from vlib.harness_loader import load as _load

C16 = _load("c16_errors.py")
val = C16.val
NK = C16.NK

TYPES = ["oct", "RSA", "EC", "OKP"]
CLS = {"oct": OctKey, "RSA": RSAKey, "EC": ECKey, "OKP": OKPKey}
REQUIRED = {"oct": ["k"], "RSA": ["n", "e"], "EC": ["crv", "x", "y"], "OKP": ["crv", "x"]}
PRIVATE = {"oct": ["k"], "RSA": ["d", "p", "q", "dp", "dq", "qi", "oth"], "EC": ["d"], "OKP": ["d"]}
ALLPRIV = ["d", "p", "q", "dp", "dq", "qi", "oth", "k"]
STRMEM = {"oct": ["k"], "RSA": ["n", "e", "d", "p", "q", "dp", "dq", "qi"], "EC": ["crv", "x", "y", "d"], "OKP": ["crv", "x", "d"]}
COMMON = {"use": None, "key_ops": None, "alg": "str", "kid": "str", "x5u": "url", "x5c": "list[str]", "x5t": "str", "x5t#S256": "str"}
USES = [None, "sig", "enc", "zz"]
OPSETS = [None, [], ["sign"], ["sign", "verify"], ["encrypt"], ["sign", "encrypt"], ["zz"], "sign"]
USE_OPS = {"sig": {"sign", "verify"}, "enc": {"encrypt", "decrypt", "wrapKey", "unwrapKey", "deriveKey", "deriveBits"}}
ALLOPS = USE_OPS["sig"] | USE_OPS["enc"]


def base_dict(kty, private):
    d = {"kty": kty}
    for m in REQUIRED[kty]:
        d[m] = "P-256" if (m == "crv" and kty == "EC") else ("Ed25519" if m == "crv" else m + "-value")
    if private and kty != "oct":
        d["d"] = "d-value"
    return d


def native_for(kty, private, kid="k"):
    if kty == "oct":
        return b"0123456789abcdef"
    if kty == "RSA":
        return ice.FakeRSAPrivate(kid) if private else ice.FakeRSAPublic(kid)
    if kty == "EC":
        return ice.FakeECPrivate(kid, "P-256") if private else ice.FakeECPublic(kid, "P-256")
    return ice.FakeEd25519Private(kid) if private else ice.FakeEd25519Public(kid)


def spec_valid(kty, d):
    """the statement's import conditions on the dict (member presence / types / use-key_ops consistency / CRT completeness)"""
    for m in REQUIRED[kty]:
        if m not in d:
            return False
    for m in STRMEM[kty]:
        if m in d and not isinstance(d[m], str):
            return False
    if kty == "RSA" and "oth" in d:
        return False
    if "kty" in d and not isinstance(d["kty"], str):
        return False
    use, ops = d.get("use"), d.get("key_ops")
    if "use" in d and (isinstance(use, list) and not all(u in ("sig", "enc") for u in use) or (not isinstance(use, list) and use not in ("sig", "enc"))):
        return False
    if "key_ops" in d and isinstance(ops, str) and ops in ALLOPS:
        return None                      # a bare string where RFC 7517 wants an array: refused or accepted depending on "use"; left open
    if "key_ops" in d:
        if isinstance(ops, list):
            if not all(isinstance(o, str) and o in ALLOPS for o in ops):
                return False
        elif ops not in ALLOPS:
            return False
    if "use" in d and "key_ops" in d and isinstance(use, str) and isinstance(ops, list):
        if any(o not in USE_OPS[use] for o in ops):
            return False
    for m, t in (("alg", str), ("kid", str), ("x5t", str), ("x5t#S256", str)):
        if m in d and not isinstance(d[m], t):
            return False
    return True


# ------------------------------------------------------------------ C11: validation of a JWK dict
def validate_member(kty_i: int, private: bool, member_i: int, present: bool, kind: int, n: int, s: str) -> bool:
    """
    PRE: 0 <= kty_i <= 3 and 0 <= member_i <= 9 and 0 <= kind < NK and -2 <= n <= 2 and len(s) <= 2
    POST: _
    """
    rt.tick()
    kty = TYPES[kty_i]
    names = ["kty", "n", "e", "d", "p", "crv", "x", "y", "k", "oth"]
    m = names[member_i]
    d = base_dict(kty, private)
    if present:
        d[m] = val(kind, n, s)
    else:
        d.pop(m, None)
    try:
        CLS[kty].validate_dict_key(dict(d))
        ok = True
    except ValueError:
        ok = False
    except Exception:  # noqa
        return False                     # malformed JWKs must be refused with ValueError, nothing else
    sv = spec_valid(kty, d)
    if sv is None:
        return True
    if ok and not sv:
        return False
    if not ok and sv and not (m == "kty"):
        return False
    return True


def validate_use_ops(kty_i: int, private: bool, use_i: int, ops_i: int) -> bool:
    """
    pre: 0 <= kty_i <= 3 and 0 <= use_i <= 3 and 0 <= ops_i <= 7
    post: _
    """
    rt.tick()
    kty = TYPES[kty_i]
    d = base_dict(kty, private)
    if USES[use_i] is not None:
        d["use"] = USES[use_i]
    if OPSETS[ops_i] is not None:
        d["key_ops"] = OPSETS[ops_i]
    try:
        CLS[kty].validate_dict_key(dict(d))
        ok = True
    except ValueError:
        ok = False
    sv = spec_valid(kty, d)
    return sv is None or ok == sv


def rsa_crt(has_p: bool, has_q: bool, has_dp: bool, has_dq: bool, has_qi: bool, has_d: bool, has_oth: bool) -> bool:
    """
    post: _
    """
    rt.tick()
    from joserfc.rfc7518.rsa_key import has_all_prime_factors, RSABinding
    d = {"kty": "RSA", "n": "n", "e": "e"}
    for f, m in ((has_p, "p"), (has_q, "q"), (has_dp, "dp"), (has_dq, "dq"), (has_qi, "qi"), (has_d, "d"), (has_oth, "oth")):
        if f:
            d[m] = m
    flags = [has_p, has_q, has_dp, has_dq, has_qi]
    try:
        r = has_all_prime_factors(d)
        if not (all(flags) or not any(flags)):
            return False                 # partial CRT parameters must be refused
        if r != all(flags):
            return False
    except ValueError:
        if all(flags) or not any(flags):
            return False
    if has_oth and has_d:
        try:
            RSABinding.import_private_key(d)
            return False
        except ValueError:
            pass
        except Exception:  # noqa
            return False
    return True


def import_export(kty_i: int, private: bool, has_kid: bool, kid: str, has_use: bool, has_alg: bool, extra: bool, with_params: bool, pub_first: bool) -> bool:
    """
    pre: 0 <= kty_i <= 3 and len(kid) <= 2
    post: _
    """
    rt.tick()
    kty = TYPES[kty_i]
    d = base_dict(kty, private)
    if has_kid:
        d["kid"] = kid
    if has_use:
        d["use"] = "sig"
    if has_alg:
        d["alg"] = "X"
    if extra:
        d["custom"] = {"a": 1}
    params = {"x5t": "tt"} if with_params else None
    given = ice.jcopy(d)
    key = CLS[kty](native_for(kty, private), d, params)
    want = dict(given)
    if params:
        want.update(params)
    if pub_first:
        # an earlier public export (directly, through a key set, or as a JWE epk) must not change what a later export returns
        pub = key.as_dict(private=False)
        if any(m in pub for m in PRIVATE[kty]) or pub is key.dict_value:
            return False
    out = key.as_dict()
    if out != want or d != given:
        return False
    if out is key.dict_value:
        return False                     # as_dict hands out a copy
    out["kid"] = "mutated"
    if key.as_dict() != want or key.kid != (kid if has_kid else None):
        return False
    # an export with override parameters returns them but leaves the key (its kid, its members) as it was
    over = key.as_dict(kid="published", x5t="other") if kty != "oct" or True else None
    if over.get("kid") != "published" or over.get("x5t") != "other":
        return False
    return key.as_dict() == want and key.kid == (kid if has_kid else None) and dict(key.dict_value) == want


# ------------------------------------------------------------------ C12: nothing private in public-facing exports
def public_export(kty_i: int, native_private: bool, has_d: bool, has_crt: bool, via_set: bool, extra_param_private: bool, call_private_first: bool) -> bool:
    """
    pre: 0 <= kty_i <= 3
    post: _
    """
    rt.tick()
    kty = TYPES[kty_i]
    d = base_dict(kty, False)
    has = [has_d, has_crt, has_crt, has_crt, has_crt, has_crt, False, True]
    for f, m in zip(has, ALLPRIV):
        if f and m in PRIVATE[kty] and m != "oth":
            d[m] = m + "-secret"
    params = {"d": "param-secret"} if (extra_param_private and kty in ("EC", "OKP", "RSA")) else None
    try:
        key = CLS[kty](native_for(kty, native_private), d, params)
    except ValueError:
        return True
    env = ice.Env(False)
    with env.installed():
        try:
            if call_private_first and key.is_private:
                key.as_dict(private=True)
            if via_set:
                key.ensure_kid()
                out = KeySet([key]).as_dict(private=False)["keys"][0]
            else:
                out = key.as_dict(private=False)
        except ice.HarnessError:
            raise
        except Exception:  # noqa
            return False
    if kty == "oct":
        # a symmetric key has no public form: KeySet.as_dict keeps k by design (open case), the key's own public export must drop it
        return via_set or "k" not in out
    if any(m in out for m in PRIVATE[kty]):
        return False
    if any(isinstance(v, str) and v.endswith("-secret") for v in out.values()):
        return False
    # and it did not damage the key: a later private export still has the private members
    if key.is_private and "d" in d:
        again = key.as_dict(private=True)
        if again.get("d") != (params or {}).get("d", d["d"]):
            return False
    return all(m in out for m in REQUIRED[kty])


def generated_public(kty_i: int, idx: int, auto_kid: bool, via_registry: bool, with_params: bool, via_set: bool) -> bool:
    """
    pre: 1 <= kty_i <= 3 and 0 <= idx <= 3
    post: _
    """
    # a key GENERATED as public-only: every default / public export, directly or through a key set, is free of private members and of the
    # private accessors' values; asking for a private export is an error
    rt.tick()
    kty = TYPES[kty_i]
    crv = {"EC": ["P-256", "P-384", "P-521", "secp256k1"], "OKP": ["Ed25519", "Ed448", "X25519", "X448"], "RSA": [2048, 2048, 3072, 4096]}[kty][idx]
    params = {"use": "sig"} if with_params else None
    env = ice.Env(False)
    with env.installed(ice.keygen_patches()):
        try:
            if via_registry:
                key = JWKRegistry.generate_key(kty, crv, params, private=False, auto_kid=auto_kid)
            else:
                key = CLS[kty].generate_key(crv, params, private=False, auto_kid=auto_kid)
            outs = [key.as_dict(), key.as_dict(private=False), dict(key.dict_value)]
            if via_set:
                ks = KeySet([key])
                outs += [ks.as_dict()["keys"][0], ks.as_dict(private=False)["keys"][0]]
        except ice.HarnessError:
            raise
        except Exception:  # noqa
            return False
        if key.is_private:
            return False
        for out in outs:
            if any(m in out for m in PRIVATE[kty]) or not all(m in out for m in REQUIRED[kty]):
                return False
        if [c for c in env.calls if c["kind"] in ("private_numbers", "private_bytes", "private_bytes_raw")]:
            return False                     # no private accessor of the generated native key was consulted
        try:
            key.as_dict(private=True)
            return False
        except ice.HarnessError:
            raise
        except Exception:  # noqa
            pass
    return True


def private_of_public(kty_i: int, how: int, with_password: bool) -> bool:
    """
    pre: 1 <= kty_i <= 3 and 0 <= how <= 3
    post: _
    """
    rt.tick()
    kty = TYPES[kty_i]
    key = CLS[kty](native_for(kty, False), base_dict(kty, False))
    env = ice.Env(False)
    pw = "pw" if with_password else None
    with env.installed():
        try:
            if how == 0:
                key.as_dict(private=True)
            elif how == 1:
                key.as_pem(private=True, password=pw)
            elif how == 2:
                key.as_der(private=True, password=pw)
            else:
                key.as_bytes(private=True, password=pw)
        except ice.HarnessError:
            raise
        except Exception:  # noqa
            return True
    return False                         # a private export of a public-only key must be an error


def bytes_export(kty_i: int, native_private: bool, how: int, private: int, with_password: bool) -> bool:
    """
    pre: 1 <= kty_i <= 3 and 0 <= how <= 2 and 0 <= private <= 2
    post: _
    """
    rt.tick()
    from cryptography.hazmat.primitives.serialization import Encoding, PrivateFormat, PublicFormat, NoEncryption, BestAvailableEncryption
    kty = TYPES[kty_i]
    calls = []

    class Rec:
        pass

    native = native_for(kty, native_private)

    def private_bytes(encoding=None, format=None, encryption_algorithm=None, *a, **k):
        calls.append(("private", encoding, format, encryption_algorithm))
        return b"PRIV-BYTES"

    def public_bytes(encoding=None, format=None, *a, **k):
        calls.append(("public", encoding, format, None))
        return b"PUB-BYTES"
    native.private_bytes = private_bytes
    native.public_bytes = public_bytes
    if native_private:
        native._pub.public_bytes = public_bytes
    key = CLS[kty](native, base_dict(kty, native_private))
    pv = [None, False, True][private]
    pw = "pw" if with_password else None
    try:
        if how == 0:
            out = key.as_pem(private=pv, password=pw)
        elif how == 1:
            out = key.as_der(private=pv, password=pw)
        else:
            out = key.as_bytes(encoding="DER", private=pv, password=pw)
    except Exception:  # noqa
        return pv is True and not native_private        # only a private export of a public key may fail
    if len(calls) != 1:
        return False
    which, enc, fmt, algo = calls[0]
    want_private = native_private if pv is None else pv
    if pv is True and not native_private:
        return False
    if (which == "private") != want_private:
        return False
    if enc != (Encoding.PEM if how == 0 else Encoding.DER):
        return False
    if want_private:
        if fmt != PrivateFormat.PKCS8:
            return False
        if pw is None:
            return isinstance(algo, NoEncryption)
        return isinstance(algo, BestAvailableEncryption) and algo.password == b"pw"
    return fmt == PublicFormat.SubjectPublicKeyInfo and out == b"PUB-BYTES"


# ------------------------------------------------------------------ C13: thumbprint and kid
class HashRec:
    def __init__(self, log):
        self.log = log

    def new(self, name, data=b"", **kw):
        self.log.append((name, data))
        outer = self

        class H:
            def digest(self_inner):
                return b"DIGEST-OF-" + name.encode()
        return H()


def thumbprint(kty_i: int, private: bool, order: int, has_kid: bool, has_use: bool, has_extra: bool, digest_i: int) -> bool:
    """
    pre: 0 <= kty_i <= 3 and 0 <= order <= 2 and 0 <= digest_i <= 2
    post: _
    """
    return _thumbprint(kty_i, private, order, has_kid, has_use, has_extra, digest_i)


def _thumbprint(kty_i, private, order, has_kid, has_use, has_extra, digest_i):
    rt.tick()
    kty = TYPES[kty_i]
    d = base_dict(kty, private)
    if has_kid:
        d["kid"] = "explicit"
    if has_use:
        d["use"] = "sig"
    if has_extra:
        d["zz"] = 1
    items = list(d.items())
    if order == 1:
        items.reverse()
    elif order == 2:
        items = items[1:] + items[:1]
    d = dict(items)
    cls = CLS[kty]
    method = ["sha256", "sha384", "sha512"][digest_i]
    key = cls(native_for(kty, private), d)
    log = []
    env = ice.Env(False)
    rec = HashRec(log)
    old = cls.thumbprint_digest_method
    cls.thumbprint_digest_method = method
    try:
        with env.installed([(hashlib, "new", rec.new)]):
            tp = key.thumbprint()
            tp2 = key.thumbprint()
            key.ensure_kid()
            kid1 = key.kid
            key.ensure_kid()
            ks = KeySet([key])
            exported = ks.as_dict()["keys"][0]
    except ice.HarnessError:
        raise
    except Exception:  # noqa
        return False
    finally:
        cls.thumbprint_digest_method = old
    if not log or any(x != log[0] for x in log):
        return False
    name, data = log[0]
    if name != method:
        return False
    # the text hashed is the canonical JSON of exactly the required members + kty, sorted, compact
    dumped = [(v, t) for v, t in env.js_made if t.encode() == data]
    if len(dumped) != 1:
        return False
    obj = dumped[0][0]
    want_keys = sorted(REQUIRED[kty] + ["kty"])
    if list(obj.keys()) != want_keys or any(obj[k] != d[k] for k in want_keys):
        return False
    kw = env.dumps_kwargs[0]
    if kw.get("separators") != (",", ":") or kw.get("ensure_ascii", True) is not True or kw.get("sort_keys") or kw.get("indent"):
        return False
    if tp != tp2 or env.b64decode(tp.encode()) != b"DIGEST-OF-" + method.encode():
        return False
    want_kid = "explicit" if has_kid else tp
    return kid1 == want_kid and key.kid == want_kid and exported.get("kid") == want_kid


def kid_rules(kid_kind: int, n: int, s: str, via: int) -> bool:
    """
    pre: 0 <= kid_kind <= 1 and -2 <= n <= 2 and len(s) <= 2 and 0 <= via <= 3
    post: _
    """
    rt.tick()
    d = base_dict("oct", True)
    has = kid_kind == 1
    if has:
        d["kid"] = s
    key = OctKey(b"0123456789abcdef", d)
    k2 = OctKey(b"fedcba9876543210", {"kty": "oct", "k": "other-value"})
    env = ice.Env(False)
    with env.installed():
        tp = key.thumbprint()
        if via == 0:
            key.ensure_kid()
        elif via == 1:
            KeySet([key, k2])
        elif via == 2:
            ks = KeySet([key])
            ks.keys.append(k2)                      # appended without a kid ...
            k3 = OctKey(b"0000111122223333", {"kty": "oct", "k": "third-value", "kid": "z"})
            ks.keys.append(k3)                      # ... and followed by a key that has its own kid
            out = ks.as_dict()
            kids = [x.get("kid") for x in out["keys"]]
            if kids != [s if has else tp, k2.thumbprint(), "z"]:
                return False
        else:
            key = OctKey.generate_key(128, {"kid": s} if has else None, auto_kid=True)
            tp = key.thumbprint()
        got = key.kid
        key.ensure_kid()
    return got == (s if has else tp) and key.kid == got


# ------------------------------------------------------------------ C14: lookup by kid, export/import of sets
def get_by_kid(n: int, k0: str, k1: str, k2: str, has_q: bool, q: str) -> bool:
    """
    pre: 1 <= n <= 3 and len(k0) <= 1 and len(k1) <= 1 and len(k2) <= 1 and len(q) <= 1
    pre: k0 != k1 and k1 != k2 and k0 != k2
    post: _
    """
    rt.tick()
    kids = [k0, k1, k2][:n]
    keys = [OctKey(bytes([65 + i]) * 16, {"kty": "oct", "k": "v%d" % i, "kid": kids[i]}) for i in range(n)]
    ks = KeySet(keys)
    query = q if has_q else None
    try:
        r = ks.get_by_kid(query)
    except InvalidKeyIdError:
        r = None
    if query is None:
        return (r is keys[0]) if n == 1 else r is None
    want = [k for k in keys if k.kid == query]
    return (r is want[0]) if want else r is None


_SET_POOL = None


def _set_pool():
    global _SET_POOL
    if _SET_POOL is None:
        from vlib import refjose as R
        _SET_POOL = {"oct": [R.test_key(k) for k in ("oct16", "oct24", "oct32")], "RSA": [R.test_key("RSA2048"), R.test_key("RSA1024"), R.public_jwk(R.test_key("RSA2048"))],
                     "EC": [R.test_key(k) for k in ("P-256", "P-384", "P-521")], "OKP": [R.test_key(k) for k in ("Ed25519", "X25519", "Ed448")]}
    return _SET_POOL


def import_set(n: int, t0: int, t1: int, t2: int, has0: bool, has1: bool, has2: bool) -> bool:
    """
    PRE: 1 <= n <= 3 and 0 <= t0 <= 3 and 0 <= t1 <= 3 and 0 <= t2 <= 3 and t0 != 1 and t1 != 1
    PRE: (n > 1 or t1 == 0) and (n > 2 or t2 == 0)
    POST: _
    """
    # (RSA only in the last position: parsing 2048-bit integers under tracing is slow)
    # KeySet.import_key_set keeps every entry of a JWKS document, in order, with its material, whether or not the entries carry a kid;
    # afterwards every key has a kid (its own if given) and exporting returns the same keys
    rt.tick()
    entries = []
    for i, (t, has) in enumerate(((t0, has0), (t1, has1), (t2, has2))[:n]):
        d = dict(_set_pool()[TYPES[t]][i])               # real, distinct JWKs (no stubs: import_key_set parses the material eagerly)
        if has:
            d["kid"] = "kid-%d" % i
        entries.append(d)
    given = ice.jcopy(entries)
    try:
        ks = KeySet.import_key_set({"keys": entries})
        out = ks.as_dict()["keys"]
    except Exception:  # noqa
        return False
    if len(ks.keys) != n or len(out) != n:
        return False
    for g, k, x in zip(given, ks.keys, out):
        if k.key_type != g["kty"] or any(k.dict_value.get(m) != g[m] or x.get(m) != g[m] for m in REQUIRED[g["kty"]]):
            return False
        if k.kid is None or ("kid" in g and k.kid != g["kid"]) or x.get("kid") != k.kid:
            return False
    return True


def set_export_import(t0: int, t1: int, private: Optional[bool], p0: bool, p1: bool) -> bool:
    """
    pre: 0 <= t0 <= 3 and 0 <= t1 <= 3
    post: _
    """
    rt.tick()
    env = ice.Env(False)
    with env.installed():
        keys = []
        for i, (t, p) in enumerate(((t0, p0), (t1, p1))):
            kty = TYPES[t]
            d = base_dict(kty, p or kty == "oct")
            if i == 0:
                d["kid"] = "first"
            keys.append(CLS[kty](native_for(kty, p, "k%d" % i), d))
        try:
            ks = KeySet(keys)
            out = ks.as_dict(private=private)
        except ice.HarnessError:
            raise
        except ValueError:
            # asking for a private export of a set holding a public-only key is an error by C12
            return private is True and any(not k.is_private for k in keys)
        if len(out["keys"]) != 2 or any("kid" not in x for x in out["keys"]):
            return False
        for k, x in zip(keys, out["keys"]):
            if x["kid"] != k.kid or x["kty"] != k.key_type:
                return False
            for m in REQUIRED[k.key_type]:
                if x.get(m) != k.dict_value[m]:
                    return False             # every key survives the export (an oct key keeps its k)
            if private is False and k.key_type != "oct" and any(m in x for m in PRIVATE[k.key_type]):
                return False                 # C12: a public export of the set holds no private member, whatever key precedes this one
            if private is not False and k.is_private and k.key_type != "oct" and "d" not in x:
                return False
        # re-import: validation must accept what was exported
        for x in out["keys"]:
            try:
                CLS[x["kty"]].validate_dict_key(x)
            except ValueError:
                return False
    return True


def witness(kty_i: int, private: bool, order: int, has_kid: bool, has_use: bool, has_extra: bool, digest_i: int) -> bool:
    """
    pre: 0 <= kty_i <= 3 and 0 <= order <= 2 and 0 <= digest_i <= 2
    post: _
    """
    return not (_thumbprint(kty_i, private, order, has_kid, has_use, has_extra, digest_i) and kty_i == 2 and digest_i == 2 and order == 2)


# ------------------------------------------------------------------ replay with real keys
def _real_jwk(R, kty, private):
    j = R.test_key({"oct": "oct32", "RSA": "RSA2048", "EC": "P-256", "OKP": "Ed25519"}[kty])
    return dict(j) if (private or kty == "oct") else R.public_jwk(j)


def replay(func, call):
    import warnings, base64
    warnings.simplefilter("ignore")
    from vlib import refjose as R
    args = eval("(" + call + ",)")
    if func == "import_set":
        n, t0, t1, t2, has0, has1, has2 = args
        entries = []
        for i, (t, has) in enumerate(((t0, has0), (t1, has1), (t2, has2))[:n]):
            j = dict(_set_pool()[TYPES[t]][i])
            if has:
                j["kid"] = "kid-%d" % i
            entries.append(j)
        try:
            ks = KeySet.import_key_set({"keys": [dict(e) for e in entries]})
            out = ks.as_dict()["keys"]
        except Exception as e:  # noqa
            return {"violated": True, "key": "c14-import-set", "detail": "import_key_set failed: %r" % (e,)}
        probs = []
        if len(ks.keys) != n or len(out) != n:
            probs.append("%d entries (kids %r) imported as %d keys" % (n, [e.get("kid") for e in entries], len(ks.keys)))
        else:
            for e, k in zip(entries, ks.keys):
                if any(k.dict_value.get(m) != e[m] for m in REQUIRED[e["kty"]]) or ("kid" in e and k.kid != e["kid"]) or k.kid is None:
                    probs.append("entry %r came back as %r" % (e.get("kid"), k.kid))
        return {"violated": bool(probs), "key": "c14-import-set", "detail": "; ".join(probs) or "fine"}
    if func == "generated_public":
        kty_i, idx, auto_kid, via_registry, with_params, via_set = args
        kty = TYPES[kty_i]
        crv = {"EC": ["P-256", "P-384", "P-521", "secp256k1"], "OKP": ["Ed25519", "Ed448", "X25519", "X448"], "RSA": [2048, 2048, 3072, 4096]}[kty][idx]
        params = {"use": "sig"} if with_params else None
        key = JWKRegistry.generate_key(kty, crv, params, private=False, auto_kid=auto_kid) if via_registry else CLS[kty].generate_key(crv, params, private=False, auto_kid=auto_kid)
        outs = {"as_dict()": key.as_dict(), "as_dict(private=False)": key.as_dict(private=False), "dict_value": dict(key.dict_value)}
        if via_set:
            ks = KeySet([key])
            outs["KeySet.as_dict()"] = ks.as_dict()["keys"][0]
            outs["KeySet.as_dict(private=False)"] = ks.as_dict(private=False)["keys"][0]
        leaks = {n: [m for m in PRIVATE[kty] if m in o] for n, o in outs.items()}
        leaks = {n: v for n, v in leaks.items() if v}
        return {"violated": bool(leaks) or key.is_private, "key": "c12-generated-public", "detail": "%s key generated with private=False, auto_kid=%s: private members in %r" % (kty, auto_kid, leaks)}
    if func == "set_export_import":
        t0, t1, private, p0, p1 = args
        keys = []
        for i, (t, p) in enumerate(((t0, p0), (t1, p1))):
            kty = TYPES[t]
            j = dict(_real_jwk(R, kty, p), kid="k%d" % i)
            keys.append(CLS[kty].import_key(j))
        try:
            out = KeySet(keys).as_dict(private=private)
        except ValueError as e:
            ok = private is True and any(not k.is_private for k in keys)
            return {"violated": not ok, "key": "c14-set-export", "detail": "KeySet.as_dict(private=%r) raised %r" % (private, e)}
        probs = []
        for k, x in zip(keys, out["keys"]):
            if private is False and k.key_type != "oct":
                lk = [m for m in PRIVATE[k.key_type] if m in x]
                if lk:
                    probs.append("public export of a set [%s] contains %r of the %s key" % (", ".join(q.key_type for q in keys), lk, k.key_type))
            if any(x.get(m) != k.dict_value[m] for m in REQUIRED[k.key_type]):
                probs.append("%s key lost a required member in the export" % k.key_type)
            if private is not False and k.is_private and k.key_type != "oct" and "d" not in x:
                probs.append("private export lost d of the %s key" % k.key_type)
        return {"violated": bool(probs), "key": "c12-set-export", "detail": "; ".join(probs) or "fine"}
    if func in ("validate_member", "validate_use_ops", "rsa_crt", "get_by_kid", "import_export"):
        # no stubs are involved in these harnesses: re-run concretely
        return rt.replay_by_rerun(globals(), func, call, key="c11-" + func)
    if func == "public_export":
        kty_i, native_private, has_d, has_crt, via_set, extra_param_private, call_private_first = args
        has = [has_d, has_crt, has_crt, has_crt, has_crt, has_crt, False, True]
        kty = TYPES[kty_i]
        j = _real_jwk(R, kty, native_private)
        full = _real_jwk(R, kty, True)
        d = dict(j)
        # members named like private parameters that the model put into the dict
        for f, m in zip(has, ALLPRIV):
            if f and m in PRIVATE[kty] and m != "oth" and m not in d and m in full and (m != "d" or native_private):
                d[m] = full[m]
        params = {"d": full["d"]} if (extra_param_private and kty in ("EC", "OKP", "RSA")) else None
        try:
            key = CLS[kty].import_key(d, params)
        except Exception as e:  # noqa
            return {"violated": False, "detail": "import refused: %r" % (e,)}
        try:
            if call_private_first and key.is_private:
                key.as_dict(private=True)
            out = KeySet([key]).as_dict(private=False)["keys"][0] if via_set else key.as_dict(private=False)
        except Exception as e:  # noqa
            return {"violated": True, "key": "c12-public-export", "detail": "public export failed: %r" % (e,)}
        if kty == "oct":
            bad = (not via_set) and "k" in out
            return {"violated": bad, "key": "c12-public-export", "detail": "OctKey.as_dict(private=False) %s k" % ("contains" if bad else "does not contain")}
        leaked = [m for m in PRIVATE[kty] if m in out]
        bad = bool(leaked)
        detail = "as_dict(private=False) of %s key imported from %r contains %r" % (kty, sorted(d), leaked)
        if not bad and key.is_private:
            again = key.as_dict(private=True)
            if "d" not in again:
                bad, detail = True, "after a public export the private export lost 'd'"
        return {"violated": bad, "key": "c12-public-export", "detail": detail}
    if func in ("private_of_public", "bytes_export"):
        if func == "private_of_public":
            kty_i, how, with_password = args
            native_private, private = False, 2
            how2 = how
        else:
            kty_i, native_private, how2, private, with_password = args
            how2 = how2 + 1
        kty = TYPES[kty_i]
        key = CLS[kty].import_key(_real_jwk(R, kty, native_private))
        pv = [None, False, True][private]
        pw = "pw" if with_password else None
        try:
            if how2 == 0:
                out = key.as_dict(private=True)
            elif how2 == 1:
                out = key.as_pem(private=pv, password=pw)
            elif how2 == 2:
                out = key.as_der(private=pv, password=pw)
            else:
                out = key.as_bytes(encoding="DER", private=pv, password=pw)
        except Exception as e:  # noqa
            ok = pv is True and not native_private
            return {"violated": not ok, "key": "c11-bytes-export", "detail": "export raised %s" % type(e).__name__}
        if pv is True and not native_private:
            return {"violated": True, "key": "c12-private-of-public", "detail": "private export of a public-only %s key returned %r" % (kty, out[:40])}
        want_private = native_private if pv is None else pv
        if isinstance(out, bytes):
            from cryptography.hazmat.primitives.serialization import load_pem_private_key, load_der_private_key, load_pem_public_key, load_der_public_key
            try:
                if want_private:
                    (load_pem_private_key if how2 == 1 else load_der_private_key)(out, password=pw.encode() if pw else None)
                    if pw:
                        try:
                            (load_pem_private_key if how2 == 1 else load_der_private_key)(out, password=None)
                            return {"violated": True, "key": "c11-bytes-export", "detail": "password-protected export is not encrypted"}
                        except Exception:  # noqa
                            pass
                else:
                    (load_pem_public_key if how2 == 1 else load_der_public_key)(out)
            except Exception as e:  # noqa
                return {"violated": True, "key": "c11-bytes-export", "detail": "exported bytes do not load as expected: %s" % type(e).__name__}
        return {"violated": False, "detail": "export fine"}
    if func in ("thumbprint", "kid_rules"):
        probs = []
        for kty in TYPES:
            for private in (True, False):
                j = _real_jwk(R, kty, private)
                req = {k: j[k] for k in REQUIRED[kty] + ["kty"]}
                for method in ("sha256", "sha384", "sha512"):
                    want = R.b64e(hashlib.new(method, json.dumps(req, sort_keys=True, separators=(",", ":")).encode()).digest())
                    cls = CLS[kty]
                    old = cls.thumbprint_digest_method
                    cls.thumbprint_digest_method = method
                    try:
                        variants = [dict(j), dict(reversed(list(j.items()))), dict(j, use="sig", zz=1)]
                        for v in variants:
                            if kty != "oct" or True:
                                try:
                                    k = cls.import_key(v)
                                    if k.thumbprint() != want:
                                        probs.append("%s %s thumbprint differs from RFC 7638 (%s)" % (kty, method, sorted(v)))
                                except Exception as e:  # noqa
                                    pass
                        k = cls.import_key(dict(j, kid=""))
                        k.ensure_kid()
                        KeySet([k])
                        if k.kid != "":
                            probs.append("an existing (empty) kid was overwritten")
                        k = cls.import_key(dict(j))
                        k.ensure_kid()
                        if k.kid != want or k.as_dict().get("kid") != want:
                            probs.append("auto kid != thumbprint")
                    finally:
                        cls.thumbprint_digest_method = old
        # key sets: appended keys, export / import
        a = OctKey.import_key(dict(R.test_key("oct32")))
        b = ECKey.import_key(dict(R.test_key("P-256")))
        c = RSAKey.import_key(R.public_jwk(R.test_key("RSA2048")))
        ks = KeySet([a])
        ks.keys.append(b)
        ks.keys.append(c)
        out = ks.as_dict(private=False)
        if [x.get("kid") for x in out["keys"]] != [a.thumbprint(), b.thumbprint(), c.thumbprint()]:
            probs.append("KeySet.as_dict exported kids %r" % [x.get("kid") for x in out["keys"]])
        # a key without kid appended after construction, followed by a key that carries its own kid
        a2 = OctKey.import_key(dict(R.test_key("oct32")))
        b2 = ECKey.import_key(dict(R.test_key("P-256")))
        c2 = RSAKey.import_key(dict(R.public_jwk(R.test_key("RSA2048")), kid="own-kid"))
        ks2 = KeySet([a2])
        ks2.keys.append(b2)
        ks2.keys.append(c2)
        for priv in (None, False):
            got = [x.get("kid") for x in ks2.as_dict(private=priv)["keys"]]
            if got != [a2.thumbprint(), b2.thumbprint(), "own-kid"]:
                probs.append("KeySet.as_dict(private=%r) with an appended kid-less key exported kids %r" % (priv, got))
        try:
            back = KeySet.import_key_set(out)
            if [k.thumbprint() for k in back.keys] != [a.thumbprint(), b.thumbprint(), c.thumbprint()]:
                probs.append("export/import of a key set does not preserve the keys")
        except Exception as e:  # noqa
            probs.append("export/import of a key set fails: %s %s" % (type(e).__name__, e))
        return {"violated": bool(probs), "key": "c13-" + func, "detail": "; ".join(probs[:3]) or "fine"}
    return {"violated": None, "detail": "no replay for " + func}
