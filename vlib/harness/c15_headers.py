"""C15 harnesses: header parameters are validated when producing and when consuming (JWS + JWE, strict on/off, caller-registered
parameters).  Oracle `acceptable()` is written from the statement; an operation may return only if it holds, and for otherwise
well-formed input (right key, primitives succeed) it must return whenever it holds."""
from typing import Optional, List, Union
from joserfc import jws, jwe
from joserfc.jws import JWSRegistry
from joserfc.jwe import JWERegistry
from joserfc.rfc7797 import JWSRegistry as B64Registry, serialize_compact as s7797_compact, deserialize_compact as d7797_compact
from joserfc.registry import HeaderParameter
from joserfc.errors import JoseError
from vlib import ice, rt
from vlib.harness_loader import load as _load

C16 = _load("c16_errors.py")
val = C16.val
NK = C16.NK

STR, URL, LSTR, INT, BOOL, JWK = "str", "url", "list[str]", "int", "bool", "jwk"
JWS_REG = {"alg": STR, "jku": URL, "jwk": JWK, "kid": STR, "x5u": URL, "x5c": LSTR, "x5t": STR, "x5t#S256": STR, "typ": STR, "cty": STR, "crit": LSTR}
JWE_REG = {"enc": STR, "zip": STR, **JWS_REG}
MORE = {"ECDH-ES": {"epk": JWK, "apu": STR, "apv": STR}, "PBES2-HS256+A128KW": {"p2s": STR, "p2c": INT}, "A128GCMKW": {"iv": STR, "tag": STR},
        "dir": {}, "A128KW": {}}
MORE_REQUIRED = {"ECDH-ES": ["epk"], "PBES2-HS256+A128KW": ["p2s", "p2c"], "A128GCMKW": ["iv", "tag"], "dir": [], "A128KW": []}
OPEN = "open"


def type_ok(t, v):
    if t == STR:
        return isinstance(v, str)
    if t == URL:
        return isinstance(v, str) and (v.startswith("http://") or v.startswith("https://"))
    if t == LSTR:
        return isinstance(v, list) and all(isinstance(x, str) for x in v)
    if t == INT:
        if isinstance(v, bool):
            return OPEN                       # Python bool is an int; JSON true is not an integer: left open
        return isinstance(v, int)
    if t == BOOL:
        return isinstance(v, bool)
    if t == JWK:
        return isinstance(v, dict)
    raise AssertionError(t)


def acceptable(header, registry, required, strict, check_b64):
    """the statement's predicate; returns True / False / OPEN"""
    res = True
    for r in required:
        if r not in header:
            return False
    for k, v in header.items():
        if k in registry:
            ok = type_ok(registry[k], v)
            if ok is False:
                return False
            if ok == OPEN:
                res = OPEN
        elif strict:
            return False
    crit = header.get("crit")
    if "crit" in header and isinstance(crit, list):
        for name in crit:
            if not isinstance(name, str) or name not in header:
                return False
    if check_b64 and "b64" in header:
        if not (isinstance(crit, list) and "b64" in crit):
            return False
    return res


import os
MAX_OP = 4 if os.environ.get("VERIF_TIER") == "thorough" else 1     # quick: compact produce/consume; thorough: + JSON forms
MEM = ["jku", "jwk", "kid", "x5u", "x5c", "x5t", "x5t#S256", "typ", "cty", "crit", "zzz", "tenant"]
K32 = ice.fake_key("oct32")


def tenant_name(tenant_type):
    """tenant_type 1/2: a fresh name registered as str / int; 3: the caller re-registers the BUILT-IN name "kid" (e.g. to make it required)"""
    return "kid" if tenant_type == 3 else "tenant"


def mk_registry(cls, strict, tenant_type, tenant_required, **kw):
    hr = None
    if tenant_type:
        hr = {tenant_name(tenant_type): HeaderParameter("Tenant", [STR, INT, STR][tenant_type - 1], tenant_required)}
    return cls(header_registry=hr, strict_check_header=strict, **kw)


def spec_registry(base, tenant_type):
    r = dict(base)
    if tenant_type:
        r[tenant_name(tenant_type)] = [STR, INT, STR][tenant_type - 1]
    return r


# ------------------------------------------------------------------ JWS
def _jws(kind, m_i, n, s, has_alg, strict, tenant_type, tenant_required, op, vr, crit_i=0):
    rt.tick()
    hdr = {"alg": "HS256"} if has_alg else {}
    name = MEM[m_i]
    hdr[name] = val(kind, n, s)
    if crit_i:
        hdr["crit"] = [["typ"], [name], ["alg", name], []][crit_i - 1]
    reg = mk_registry(JWSRegistry, strict, tenant_type, tenant_required, algorithms=["HS256"])
    required = ["alg"] + ([tenant_name(tenant_type)] if tenant_type and tenant_required else [])
    want = acceptable(hdr, spec_registry(JWS_REG, tenant_type), required, strict, False)
    env = ice.Env(True, [vr])
    env.bind_b64(b"HDRSEG", b"HDRJSON")
    env.bind_json(b"HDRJSON", lambda: ice.jcopy(hdr))
    env.bind_b64(b"PAYSEG", b"payload")
    env.bind_b64(b"SIGSEG", bytes(32))
    with env.installed():
        try:
            if op == 0:
                jws.serialize_compact(dict(hdr), b"payload", K32, registry=reg)
            elif op == 1:
                jws.deserialize_compact(b"HDRSEG.PAYSEG.SIGSEG", K32, registry=reg)
            elif op == 2:
                jws.serialize_json({"protected": dict(hdr)}, b"payload", K32, registry=reg)
            elif op == 3:
                p = {k: v for k, v in hdr.items() if k in ("alg", "crit")}
                u = {k: v for k, v in hdr.items() if k not in ("alg", "crit")}
                jws.serialize_json({"protected": p, "header": u}, b"payload", K32, registry=reg)
            else:
                p = {k: v for k, v in hdr.items() if k in ("alg",)}
                u = {k: v for k, v in hdr.items() if k not in ("alg",)}
                env.bind_json(b"HDRJSON", lambda: ice.jcopy(p))
                jws.deserialize_json({"payload": "PAYSEG", "protected": "HDRSEG", "header": u, "signature": "SIGSEG"}, K32, registry=reg)
            returned = True
        except ice.HarnessError:
            raise
        except Exception:  # noqa
            returned = False
    if want == OPEN:
        return True
    if returned and not want:
        return False
    if want and not returned and (vr or op in (0, 2, 3)):
        return False                     # a valid header with everything else in order must be accepted
    return True


def jws_member(kind: int, m_i: int, n: int, s: str, has_alg: bool, strict: bool, op: int, vr: bool) -> bool:
    """
    PRE: 0 <= kind < NK and 0 <= m_i < 11 and len(s) <= 2 and -2 <= n <= 2 and 0 <= op <= MAX_OP
    POST: _
    """
    return _jws(kind, m_i, n, s, has_alg, strict, 0, False, op, vr)


def jws_url_member(m_i: int, s: str, strict: bool, op: int, vr: bool) -> bool:
    """
    pre: m_i in (0, 3) and len(s) <= 9 and 0 <= op <= 1
    post: _
    """
    return _jws(3, m_i, 0, s, True, strict, 0, False, op, vr)


def jws_tenant(kind: int, n: int, s: str, present: bool, strict: bool, tenant_type: int, tenant_required: bool, op: int, vr: bool) -> bool:
    """
    PRE: 0 <= kind < NK and len(s) <= 2 and -2 <= n <= 2 and 0 <= op <= 4 and 0 <= tenant_type <= 3
    POST: _
    """
    if present:
        return _jws(kind, 2 if tenant_type == 3 else 11, n, s, True, strict, tenant_type, tenant_required, op, vr)
    return _jws(3, 7, n, "t", True, strict, tenant_type, tenant_required, op, vr)


def jws_crit(kind: int, m_i: int, n: int, s: str, crit_i: int, strict: bool, op: int, vr: bool) -> bool:
    """
    PRE: 0 <= kind < NK and 0 <= m_i < 11 and m_i != 9 and len(s) <= 2 and -2 <= n <= 2 and 0 <= op <= 1 and 1 <= crit_i <= 4
    POST: _
    """
    return _jws(kind, m_i, n, s, True, strict, 0, False, op, vr, crit_i)


def b64_crit(b64_kind: int, n: int, s: str, crit_i: int, strict: bool, op: int, plain_registry: bool, caller_b64: bool, vr: bool) -> bool:
    """
    PRE: 0 <= b64_kind < NK and len(s) <= 2 and -2 <= n <= 2 and 0 <= crit_i <= 3 and 0 <= op <= 1
    PRE: not KNOWN_PLAIN_B64 or not plain_registry or strict
    PRE: plain_registry or not caller_b64
    POST: _
    """
    # caller_b64: the plain jws registry with "b64" registered by the caller (so that strict checking lets the name through)
    return _b64_crit(b64_kind, n, s, crit_i, strict, op, plain_registry, vr, caller_b64)


KNOWN_PLAIN_B64 = False


def _b64_crit(b64_kind, n, s, crit_i, strict, op, plain_registry, vr, caller_b64=False):
    rt.tick()
    hdr = {"alg": "HS256", "b64": val(b64_kind, n, s)}
    if crit_i:
        hdr["crit"] = [["b64"], ["alg"], []][crit_i - 1]
    regcls = JWSRegistry if plain_registry else B64Registry
    reg = regcls(strict_check_header=strict, algorithms=["HS256"], **({"header_registry": {"b64": HeaderParameter("b64", BOOL)}} if caller_b64 else {}))
    spec = dict(JWS_REG)
    if not plain_registry or caller_b64:
        spec["b64"] = BOOL
    want = acceptable(hdr, spec, ["alg"], strict, True)
    env = ice.Env(True, [vr])
    env.bind_b64(b"HDRSEG", b"HDRJSON")
    env.bind_json(b"HDRJSON", lambda: ice.jcopy(hdr))
    env.bind_b64(b"PAYSEG", b"payload")
    env.bind_b64(b"SIGSEG", bytes(32))
    ser = jws.serialize_compact if plain_registry else s7797_compact
    with env.installed():
        try:
            if op == 0:
                ser(dict(hdr), b"payload", K32, registry=reg)
            elif plain_registry:
                jws.deserialize_compact(b"HDRSEG.PAYSEG.SIGSEG", K32, registry=reg)
            else:
                d7797_compact(b"HDRSEG.PAYSEG.SIGSEG", K32, registry=reg)
            returned = True
        except ice.HarnessError:
            raise
        except Exception:  # noqa
            returned = False
    if want == OPEN:
        return True
    return not (returned and not want)


def jws_witness(kind: int, m_i: int, n: int, s: str, has_alg: bool, strict: bool, op: int, vr: bool) -> bool:
    """
    pre: 0 <= kind < NK and 0 <= m_i < 11 and len(s) <= 2 and -2 <= n <= 2 and 0 <= op <= 4
    post: _
    """
    hdr = {"alg": "HS256", MEM[m_i]: val(kind, n, s)}
    env = ice.Env(True, [vr])
    env.bind_b64(b"HDRSEG", b"HDRJSON")
    env.bind_json(b"HDRJSON", lambda: ice.jcopy(hdr))
    env.bind_b64(b"PAYSEG", b"payload")
    env.bind_b64(b"SIGSEG", bytes(32))
    with env.installed():
        try:
            jws.deserialize_compact(b"HDRSEG.PAYSEG.SIGSEG", K32, registry=JWSRegistry(strict_check_header=strict))
        except Exception:  # noqa
            return True
    return not (m_i == 4 and kind == 5)


# ------------------------------------------------------------------ JWE
JALGS = ["dir", "A128KW", "A128GCMKW", "ECDH-ES", "PBES2-HS256+A128KW"]
JMEM = ["enc", "zip", "kid", "typ", "crit", "epk", "apu", "apv", "p2s", "p2c", "iv", "tag", "zzz", "tenant", "x5c"]
_PATCH = None


def jpatches():
    global _PATCH
    if _PATCH is None:
        _PATCH = C16.jwe_patches()
    return _PATCH


def _jwe(alg_i, kind, m_i, present, n, s, strict, tenant_type, tenant_required, consume, v0, v1):
    rt.tick()
    alg = JALGS[alg_i]
    full = C16.base_header(C16.ALGS.index(alg))
    hdr = dict(full) if consume else {"alg": alg, "enc": "A128GCM"}
    name = JMEM[m_i]
    if present:
        hdr[name] = C16.member_val(name, kind, n, s)
    else:
        hdr.pop(name, None)
    reg = mk_registry(JWERegistry, strict, tenant_type, tenant_required, algorithms=[alg, "A128GCM", "DEF"])
    spec = spec_registry({**JWE_REG, **MORE[alg]}, tenant_type)
    required = ["alg", "enc"] + (MORE_REQUIRED[alg] if consume else []) + ([tenant_name(tenant_type)] if tenant_type and tenant_required else [])
    want = acceptable(hdr, spec, required, strict, False)
    if "zip" in hdr and hdr["zip"] != "DEF" and want is True:
        want = False                         # a well-typed but unknown zip name is an unsupported algorithm, not a header matter
    if "enc" in hdr and hdr["enc"] != "A128GCM" and want is True:
        want = False
    key = C16.jwe_key(C16.ALGS.index(alg))
    env = C16.jwe_env(hdr, [v0, v1, v1])
    env.bind_b64(b"AAAA", b"\x00\x00\x00")
    with env.installed(jpatches()):
        try:
            if consume:
                ek = b"" if alg in ("dir", "ECDH-ES") else b"EKSEG"
                jwe.decrypt_compact(b"PROTSEG." + ek + b".IVSEG.CTSEG.TAGSEG", key, registry=reg)
            else:
                jwe.encrypt_compact(dict(hdr), b"plaintext", key, registry=reg)
            returned = True
        except ice.HarnessError:
            raise
        except Exception:  # noqa
            returned = False
    if want == OPEN:
        return True
    return not (returned and not want)


def jwe_member(kind: int, alg_i: int, m_i: int, present: bool, n: int, s: str, strict: bool, consume: bool, v0: bool, v1: bool) -> bool:
    """
    PRE: 0 <= alg_i < 5 and 0 <= kind < NK and 0 <= m_i < 15 and m_i != 13 and len(s) <= 2 and -2 <= n <= 2
    POST: _
    """
    return _jwe(alg_i, kind, m_i, present, n, s, strict, 0, False, consume, v0, v1)


def jwe_tenant(kind: int, alg_i: int, present: bool, n: int, s: str, strict: bool, tenant_type: int, tenant_required: bool, consume: bool, v0: bool, v1: bool) -> bool:
    """
    PRE: 0 <= alg_i < 5 and 0 <= kind < NK and len(s) <= 2 and -2 <= n <= 2 and 0 <= tenant_type <= 3
    POST: _
    """
    return _jwe(alg_i, kind, JMEM.index("kid") if tenant_type == 3 else 13, present, n, s, strict, tenant_type, tenant_required, consume, v0, v1)


def jwe_accepts_valid(alg_i: int, with_tenant: bool, tenant_type: int, strict: bool, consume: bool) -> bool:
    """
    pre: 0 <= alg_i < 5 and 1 <= tenant_type <= 2
    post: _
    """
    rt.tick()
    alg = JALGS[alg_i]
    hdr = C16.base_header(C16.ALGS.index(alg)) if consume else {"alg": alg, "enc": "A128GCM"}
    if with_tenant:
        hdr["tenant"] = "t" if tenant_type == 1 else 5
    reg = mk_registry(JWERegistry, strict, tenant_type, True, algorithms=[alg, "A128GCM"])
    key = C16.jwe_key(C16.ALGS.index(alg))
    env = C16.jwe_env(hdr, [True, True, True])
    with env.installed(jpatches()):
        try:
            if consume:
                ek = b"" if alg in ("dir", "ECDH-ES") else b"EKSEG"
                jwe.decrypt_compact(b"PROTSEG." + ek + b".IVSEG.CTSEG.TAGSEG", key, registry=reg)
            else:
                jwe.encrypt_compact(dict(hdr), b"plaintext", key, registry=reg)
            returned = True
        except ice.HarnessError:
            raise
        except Exception:  # noqa
            returned = False
    return returned == with_tenant       # required caller-registered parameter: enforced when missing, accepted when present


def history_jwe(alg_i: int, first_registers: bool, second_registers: bool, strict2: bool, consume: bool) -> bool:
    """
    pre: 0 <= alg_i < 5
    post: _
    """
    rt.tick()
    return _history(alg_i, first_registers, second_registers, strict2, consume)


def _history(alg_i, first_registers, second_registers, strict2, consume):
    alg = JALGS[alg_i]

    def attempt(registers, strict):
        hdr = C16.base_header(C16.ALGS.index(alg)) if consume else {"alg": alg, "enc": "A128GCM"}
        hdr["tenant"] = "t"
        reg = mk_registry(JWERegistry, strict, 1 if registers else 0, False, algorithms=[alg, "A128GCM"])
        key = C16.jwe_key(C16.ALGS.index(alg))
        env = C16.jwe_env(hdr, [True, True, True])
        with env.installed(jpatches()):
            try:
                if consume:
                    ek = b"" if alg in ("dir", "ECDH-ES") else b"EKSEG"
                    jwe.decrypt_compact(b"PROTSEG." + ek + b".IVSEG.CTSEG.TAGSEG", key, registry=reg)
                else:
                    jwe.encrypt_compact(dict(hdr), b"plaintext", key, registry=reg)
                return True
            except ice.HarnessError:
                raise
            except Exception:  # noqa
                return False
    attempt(first_registers, True)
    second = attempt(second_registers, strict2)
    return second == (second_registers or not strict2)


def jwe_witness(alg_i: int, consume: bool, v0: bool, v1: bool) -> bool:
    """
    pre: 0 <= alg_i < 5
    post: _
    """
    alg = JALGS[alg_i]
    hdr = C16.base_header(C16.ALGS.index(alg)) if consume else {"alg": alg, "enc": "A128GCM"}
    env = C16.jwe_env(hdr, [v0, v1, v1])
    with env.installed(jpatches()):
        try:
            if consume:
                ek = b"" if alg in ("dir", "ECDH-ES") else b"EKSEG"
                jwe.decrypt_compact(b"PROTSEG." + ek + b".IVSEG.CTSEG.TAGSEG", C16.jwe_key(C16.ALGS.index(alg)), algorithms=[alg, "A128GCM"])
            else:
                jwe.encrypt_compact(dict(hdr), b"plaintext", C16.jwe_key(C16.ALGS.index(alg)), algorithms=[alg, "A128GCM"])
        except Exception:  # noqa
            return True
    return not (alg_i == 4)


# ------------------------------------------------------------------ replay with real keys and primitives
def replay(func, call):
    import warnings, json
    warnings.simplefilter("ignore")
    from vlib import refjose as R
    from joserfc.jwk import JWKRegistry
    if call == "@nondeterministic" or func == "history_jwe":
        combos = [(a, f, s2, st, c) for a in range(5) for f in (True, False) for s2 in (False, True) for st in (True, False) for c in (False, True)] \
            if call == "@nondeterministic" else [eval("(" + call + ",)")]
        for (a, f, s2, st, c) in combos:
            r = _real_history(a, f, s2, st, c)
            if r:
                return r
        return {"violated": None if call == "@nondeterministic" else False, "detail": "no history reproduces a changed verdict on the real code"}
    args = eval("(" + call + ",)")
    if func in ("jws_member", "jws_url_member", "jws_tenant", "jws_crit", "b64_crit", "b64_crit_plain_nonstrict"):
        tenant_type, tenant_required, crit_i, plain, check_b64 = 0, False, 0, True, False
        if func == "jws_member":
            kind, m_i, n, s, has_alg, strict, op, vr = args
        elif func == "jws_url_member":
            m_i, s, strict, op, vr = args
            kind, n, has_alg = 3, 0, True
        elif func == "jws_tenant":
            kind, n, s, present, strict, tenant_type, tenant_required, op, vr = args
            m_i, has_alg = ((2 if tenant_type == 3 else 11), True) if present else (7, True)
            if not present:
                kind, s = 3, "t"
        elif func == "jws_crit":
            kind, m_i, n, s, crit_i, strict, op, vr = args
            has_alg = True
        else:
            caller_b64 = False
            if func == "b64_crit":
                b64_kind, n, s, crit_i, strict, op, plain, caller_b64, vr = args
            else:
                b64_kind, n, s, crit_i, op, vr = args
                strict, plain = False, True
            hdr = {"alg": "HS256", "b64": val(b64_kind, n, s)}
            if crit_i:
                hdr["crit"] = [["b64"], ["alg"], []][crit_i - 1]
            check_b64 = True
            m_i = None
        if m_i is not None:
            hdr = {"alg": "HS256"} if has_alg else {}
            hdr[MEM[m_i]] = val(kind, n, s)
            if crit_i:
                hdr["crit"] = [["typ"], [MEM[m_i]], ["alg", MEM[m_i]], []][crit_i - 1]
        jwk = R.test_key("oct32")
        key = JWKRegistry.import_key(jwk)
        if check_b64:
            reg = (JWSRegistry if plain else B64Registry)(strict_check_header=strict, algorithms=["HS256"],
                                                          **({"header_registry": {"b64": HeaderParameter("b64", BOOL)}} if caller_b64 else {}))
            spec = dict(JWS_REG)
            if not plain or caller_b64:
                spec["b64"] = BOOL
            want = acceptable(hdr, spec, ["alg"], strict, True)
        else:
            reg = mk_registry(JWSRegistry, strict, tenant_type, tenant_required, algorithms=["HS256"])
            want = acceptable(hdr, spec_registry(JWS_REG, tenant_type), ["alg"] + ([tenant_name(tenant_type)] if tenant_type and tenant_required else []), strict, False)
        hseg = R.b64e(json.dumps(hdr).encode())
        unenc = check_b64 and not plain and hdr.get("b64") is False
        pseg = "payload" if unenc else R.b64e(b"payload")
        try:
            sig = R.jws_sign("HS256", jwk, (hseg + "." + pseg).encode())
        except Exception:  # noqa
            sig = bytes(32)
        if not vr:
            sig = bytes([sig[0] ^ 1]) + sig[1:]
        tok = hseg + "." + pseg + "." + R.b64e(sig)
        try:
            if op == 0:
                (jws.serialize_compact if (plain or not check_b64) else s7797_compact)(dict(hdr), b"payload", key, registry=reg)
            elif op == 1:
                (jws.deserialize_compact if (plain or not check_b64) else d7797_compact)(tok, key, registry=reg)
            elif op == 2:
                jws.serialize_json({"protected": dict(hdr)}, b"payload", key, registry=reg)
            elif op == 3:
                p = {k: v for k, v in hdr.items() if k in ("alg", "crit")}
                u = {k: v for k, v in hdr.items() if k not in ("alg", "crit")}
                jws.serialize_json({"protected": p, "header": u}, b"payload", key, registry=reg)
            else:
                p = {k: v for k, v in hdr.items() if k in ("alg",)}
                u = {k: v for k, v in hdr.items() if k not in ("alg",)}
                ps = R.b64e(json.dumps(p).encode())
                sg = R.jws_sign("HS256", jwk, (ps + "." + R.b64e(b"payload")).encode())
                jws.deserialize_json({"payload": R.b64e(b"payload"), "protected": ps, "header": u, "signature": R.b64e(sg)}, key, registry=reg)
            returned, err = True, None
        except Exception as e:  # noqa
            returned, err = False, e
        if want == OPEN:
            return {"violated": False, "open_case": True, "detail": "open case"}
        bad = (returned and not want) or (want and not returned and (vr or op in (0, 2, 3)) and not check_b64)
        return {"violated": bool(bad), "key": "c15-" + func + ("-plain-b64" if check_b64 and plain and not strict else ""),
                "detail": "header %r strict=%s op=%d -> %s; the statement says %s" % (hdr, strict, op, "accepted" if returned else "refused (%s)" % type(err).__name__,
                                                                                    "acceptable" if want else "not acceptable")}
    if func in ("jwe_member", "jwe_tenant", "jwe_accepts_valid"):
        tenant_type, tenant_required = 0, False
        if func == "jwe_member":
            kind, alg_i, m_i, present, n, s, strict, consume, v0, v1 = args
        elif func == "jwe_tenant":
            kind, alg_i, present, n, s, strict, tenant_type, tenant_required, consume, v0, v1 = args
            m_i = JMEM.index("kid") if tenant_type == 3 else 13
        else:
            alg_i, with_tenant, tenant_type, strict, consume = args
            kind, m_i, present, n, s, v0, v1, tenant_required = (3 if tenant_type == 1 else 2), 13, with_tenant, 1, "t", True, True, True
        alg = JALGS[alg_i]
        kk = {"dir": "oct16", "A128KW": "oct16", "A128GCMKW": "oct16", "ECDH-ES": "P-256", "PBES2-HS256+A128KW": "oct32"}[alg]
        jwk = R.test_key(kk)
        key = JWKRegistry.import_key(jwk)
        add, ek, cek = R.key_manage(alg, "A128GCM", R.public_jwk(jwk) if jwk["kty"] != "oct" else jwk, p2s=b"salt-input", p2c=1000)
        hdr = {"alg": alg, "enc": "A128GCM", **(add if consume else {})}
        name = JMEM[m_i]
        if present:
            v = C16.member_val(name, kind, n, s)
            if kind == 3 and name in C16.B64_MEMBERS:
                v = ["AAAA", "zz", "", "AAAAAAAAAAAAAAAA", "!!"][n % 5]
            hdr[name] = v
        else:
            hdr.pop(name, None)
        reg = mk_registry(JWERegistry, strict, tenant_type, tenant_required, algorithms=[alg, "A128GCM", "DEF"])
        spec = spec_registry({**JWE_REG, **MORE[alg]}, tenant_type)
        required = ["alg", "enc"] + (MORE_REQUIRED[alg] if consume else []) + ([tenant_name(tenant_type)] if tenant_type and tenant_required else [])
        want = acceptable(hdr, spec, required, strict, False)
        if want is True and (("zip" in hdr and hdr["zip"] != "DEF") or hdr.get("enc") != "A128GCM"):
            want = False
        try:
            if consume:
                hseg = R.b64e(json.dumps(hdr).encode())
                pt = b"plaintext"
                if hdr.get("zip") == "DEF":
                    import zlib
                    pt = zlib.compress(pt)[2:-4]
                ct, tag = R.content_encrypt("A128GCM", cek, bytes(12), hseg.encode(), pt)
                tok = ".".join([hseg, R.b64e(ek), R.b64e(bytes(12)), R.b64e(ct), R.b64e(tag)])
                jwe.decrypt_compact(tok, key, registry=reg)
            else:
                jwe.encrypt_compact(dict(hdr), b"plaintext", JWKRegistry.import_key(R.public_jwk(jwk)) if jwk["kty"] != "oct" else key, registry=reg)
            returned, err = True, None
        except Exception as e:  # noqa
            returned, err = False, e
        if want == OPEN:
            return {"violated": False, "open_case": True, "detail": "open case"}
        bad = returned and not want
        if func == "jwe_accepts_valid":
            bad = returned != with_tenant
        return {"violated": bool(bad), "key": "c15-" + func, "detail": "alg=%s header %r strict=%s consume=%s -> %s; statement: %s" %
                (alg, hdr, strict, consume, "accepted" if returned else "refused (%s)" % type(err).__name__, "acceptable" if want else "not acceptable")}
    return {"violated": None, "detail": "no replay for " + func}


def _real_history(alg_i, first_registers, second_registers, strict2, consume):
    from vlib import refjose as R
    from joserfc.jwk import JWKRegistry
    import json
    alg = JALGS[alg_i]
    kk = {"dir": "oct16", "A128KW": "oct16", "A128GCMKW": "oct16", "ECDH-ES": "P-256", "PBES2-HS256+A128KW": "oct32"}[alg]
    jwk = R.test_key(kk)
    key = JWKRegistry.import_key(jwk)

    def attempt(registers, strict):
        add, ek, cek = R.key_manage(alg, "A128GCM", R.public_jwk(jwk) if jwk["kty"] != "oct" else jwk, p2s=b"salt-input", p2c=1000)
        hdr = {"alg": alg, "enc": "A128GCM", **(add if consume else {}), "tenant": "t"}
        reg = mk_registry(JWERegistry, strict, 1 if registers else 0, False, algorithms=[alg, "A128GCM"])
        try:
            if consume:
                hseg = R.b64e(json.dumps(hdr).encode())
                ct, tag = R.content_encrypt("A128GCM", cek, bytes(12), hseg.encode(), b"plaintext")
                jwe.decrypt_compact(".".join([hseg, R.b64e(ek), R.b64e(bytes(12)), R.b64e(ct), R.b64e(tag)]), key, registry=reg)
            else:
                jwe.encrypt_compact(dict(hdr), b"plaintext", JWKRegistry.import_key(R.public_jwk(jwk)) if jwk["kty"] != "oct" else key, registry=reg)
            return True
        except Exception:  # noqa
            return False
    attempt(first_registers, True)
    second = attempt(second_registers, strict2)
    want = second_registers or not strict2
    if second != want:
        return {"violated": True, "key": "c15-history", "detail": "alg=%s: after a call with a registry that %s 'tenant', a call with a %s registry that %s it "
                "%s the header with 'tenant' (in isolation: %s)" % (alg, "registers" if first_registers else "does not register", "strict" if strict2 else "non-strict",
                                                                   "registers" if second_registers else "does not register", "accepts" if second else "refuses", "accepts" if want else "refuses")}
    return None
