"""C16 harnesses: whatever an untrusted token contains, the consumer entry points return or raise JoseError / ValueError only.

Symbolic JSON values: val(kind, n, s) builds None / bool / int n (unbounded) / str s / lists / dicts from solver-chosen n, s.
Decoder and primitive failures are solver-chosen among the classes the real leaves raise (binascii.Error, JSONDecodeError,
UnicodeDecodeError, RecursionError; InvalidTag, InvalidUnwrap, ValueError, zlib.error)."""
from typing import Optional, List, Union
import json, binascii, zlib
from joserfc import jws, jwe, jwt
from joserfc.jwk import KeySet
from joserfc.jwe import JWERegistry
from joserfc.errors import JoseError
from joserfc.rfc7797 import deserialize_compact as d7797_compact, deserialize_json as d7797_json
from vlib import ice, rt

NK = 11


NAMES5 = ["alg", "b64", "zz", "", "enc"]


def val(kind, n, s):
    """JSON value of the given kind.  Scalars are symbolic (int n, str s); strings INSIDE containers are picked from NAMES5 by n
    (a symbolic str inside a list/dict is realised by repr() in the library's error messages and would be enumerated)."""
    t = NAMES5[n % 5]
    if kind == 0:
        return None
    if kind == 1:
        return n % 2 == 0
    if kind == 2:
        return n
    if kind == 3:
        return s
    if kind == 4:
        return []
    if kind == 5:
        return [t]
    if kind == 6:
        return [n]
    if kind == 7:
        return [[n]]
    if kind == 8:
        return {}
    if kind == 9:
        return {"a": n, "crv": t}
    return [t, n]


JSON_FAIL = [None, json.JSONDecodeError("Expecting value", "x", 0), UnicodeDecodeError("utf-8", b"\xff", 0, 1, "invalid start byte"),
             RecursionError("maximum recursion depth exceeded while decoding a JSON array")]
K32 = ice.fake_key("oct32", kid="a")
K16 = ice.fake_key("oct16", kid="k16")
KEC = ice.fake_key("P-256", kid="ec", private=True)
KX = ice.fake_key("X25519", kid="x", private=True)
KRSA = ice.fake_key("RSA", kid="rsa", private=True)
_P = None


def patches():
    global _P
    if _P is None:
        _P = ice.jwe_patches() + ice.ec_import_patches() + ice.okp_import_patches() + ice.keygen_patches()
    return _P


def ok_exc(e):
    return isinstance(e, (JoseError, ValueError))


def guarded(env, fn, extra=()):
    """True iff fn() returns or raises JoseError/ValueError"""
    with env.installed(extra):
        try:
            fn()
        except ice.HarnessError:
            raise
        except Exception as e:  # noqa
            return ok_exc(e)
    return True


def sig32():
    return bytes(range(32))


# ------------------------------------------------------------------ JWS compact / JSON / 7797 / JWT over JWS
def jws_env(header_value, json_fail, b64_fail, vr, payload_json=None, payload_fail=0):
    env = ice.Env(True, [vr, vr])
    env.bind_b64(b"HDRSEG", binascii.Error("Only base64 data is allowed") if b64_fail else b"HDRJSON")
    env.bind_json(b"HDRJSON", JSON_FAIL[json_fail] if json_fail else (lambda: ice.jcopy(header_value)))
    env.bind_b64(b"PAYSEG", b"payload-octets")
    env.bind_json(b"payload-octets", JSON_FAIL[payload_fail] if payload_fail else (lambda: ice.jcopy(payload_json)))
    env.bind_b64(b"SIGSEG", sig32())
    return env


def jws_header_value(top_kind: int, n: int, s: str, json_fail: int, b64_fail: bool, entry: int, vr: bool) -> bool:
    """
    PRE: 0 <= top_kind < NK and len(s) <= 2 and -2 <= n <= 2 and 0 <= json_fail <= 3 and 0 <= entry <= 4
    POST: _
    """
    rt.tick()
    env = jws_env(val(top_kind, n, s), json_fail, b64_fail, vr, {"sub": "x"})
    return guarded(env, lambda: _jws_entry(entry))


def _jws_entry(entry, key=None):
    key = key or K32
    tok = b"HDRSEG.PAYSEG.SIGSEG"
    if entry == 0:
        return jws.deserialize_compact(tok, key)
    if entry == 1:
        return jws.deserialize_json({"payload": "PAYSEG", "protected": "HDRSEG", "signature": "SIGSEG"}, key)
    if entry == 2:
        return jws.deserialize_json({"payload": "PAYSEG", "signatures": [{"protected": "HDRSEG", "signature": "SIGSEG"}]}, key)
    if entry == 3:
        return jwt.decode(tok, key)
    if entry == 4:
        return d7797_compact(tok, key)
    return d7797_json({"payload": "PAYSEG", "protected": "HDRSEG", "signature": "SIGSEG"}, key)


MEMBERS = ["alg", "kid", "crit", "typ", "jwk", "x5c", "b64", "jku", "zzz"]


def jws_member(kind: int, member_i: int, n: int, s: str, with_alg: bool, entry: int, vr: bool) -> bool:
    """
    PRE: 0 <= member_i < 9 and 0 <= kind < NK and len(s) <= 2 and -2 <= n <= 2 and 0 <= entry <= 5
    POST: _
    """
    rt.tick()
    hdr = {"alg": "HS256"} if with_alg else {}
    hdr[MEMBERS[member_i]] = val(kind, n, s)
    env = jws_env(hdr, 0, False, vr, {"sub": "x"})
    return guarded(env, lambda: _jws_entry(entry))


def jws_crit_pairs(crit_kind: int, n: int, s: str, b64_kind: int, entry: int, vr: bool) -> bool:
    """
    PRE: 0 <= crit_kind < NK and 0 <= b64_kind <= 3 and len(s) <= 2 and -2 <= n <= 2 and 0 <= entry <= 5
    POST: _
    """
    rt.tick()
    hdr = {"alg": "HS256", "crit": val(crit_kind, n, s), "b64": val(b64_kind, n, s)}
    env = jws_env(hdr, 0, False, vr, {"sub": "x"})
    return guarded(env, lambda: _jws_entry(entry))


def jws_unprotected_member(kind: int, member_i: int, n: int, s: str, general: bool, use7797: bool, vr: bool) -> bool:
    """
    PRE: 0 <= member_i < 9 and 0 <= kind < NK and len(s) <= 2 and -2 <= n <= 2
    POST: _
    """
    rt.tick()
    env = jws_env({"alg": "HS256"}, 0, False, vr)
    u = {MEMBERS[member_i]: val(kind, n, s)}
    sig = {"protected": "HDRSEG", "header": u, "signature": "SIGSEG"}
    value = {"payload": "PAYSEG", "signatures": [sig]} if general else {"payload": "PAYSEG", **sig}
    if use7797 and not general:
        return guarded(env, lambda: d7797_json(value, K32))
    return guarded(env, lambda: jws.deserialize_json(value, K32))


def jwt_payload(kind: int, n: int, s: str, payload_fail: int, vr: bool) -> bool:
    """
    PRE: 0 <= kind < NK and len(s) <= 2 and -2 <= n <= 2 and 0 <= payload_fail <= 3
    POST: _
    """
    rt.tick()
    env = jws_env({"alg": "HS256"}, 0, False, vr, val(kind, n, s), payload_fail)
    return guarded(env, lambda: jwt.decode(b"HDRSEG.PAYSEG.SIGSEG", K32))


def jws_keyset_kid(kind: int, n: int, s: str, vr: bool) -> bool:
    """
    PRE: 0 <= kind < NK and len(s) <= 2 and -2 <= n <= 2
    POST: _
    """
    env = jws_env({"alg": "HS256", "kid": val(kind, n, s)}, 0, False, vr)
    ks = KeySet([K32, ice.fake_key("oct48", kid="b")])
    return guarded(env, lambda: jws.deserialize_compact(b"HDRSEG.PAYSEG.SIGSEG", ks))


def jws_witness(top_kind: int, n: int, s: str, json_fail: int, b64_fail: bool, entry: int, vr: bool) -> bool:
    """
    pre: 0 <= top_kind < NK and len(s) <= 2 and -2 <= n <= 2 and 0 <= json_fail <= 3 and 0 <= entry <= 4
    post: _
    """
    env = jws_env({"alg": "HS256"}, json_fail, b64_fail, vr, {"sub": "x"})
    with env.installed():
        try:
            _jws_entry(entry)
        except Exception:  # noqa
            return True
    return entry != 3


# ------------------------------------------------------------------ JWE
JMEMBERS = ["alg", "enc", "zip", "kid", "crit", "epk", "apu", "apv", "p2s", "p2c", "iv", "tag", "zzz"]
ALGS = ["dir", "A128KW", "A128GCMKW", "RSA-OAEP", "ECDH-ES", "ECDH-ES+A128KW", "PBES2-HS256+A128KW"]
ALLOWED = ALGS + ["A128GCM", "A128CBC-HS256", "DEF"]


def base_header(alg_i):
    alg = ALGS[alg_i]
    h = {"alg": alg, "enc": "A128GCM"}
    if alg == "A128GCMKW":
        h["iv"], h["tag"] = "KWIV", "KWTAG"
    if alg.startswith("PBES2"):
        h["p2s"], h["p2c"] = "P2S", 1000
    if alg.startswith("ECDH"):
        h["epk"] = {"kty": "EC", "crv": "P-256", "x": "EPKX", "y": "EPKY"}
    return h


def jwe_key(alg_i):
    return [K16, K16, K16, KRSA, KEC, KEC, K32][alg_i]


def jwe_env(hdr, verdicts, json_fail=0, seg_fail=0, zfail=False, epk_invalid=False):
    env = ice.Env(True, verdicts)
    env.bind_b64(b"PROTSEG", b"PROTJSON")
    env.bind_json(b"PROTJSON", JSON_FAIL[json_fail] if json_fail else (lambda: ice.jcopy(hdr)))
    segs = {b"EKSEG": bytes(24), b"IVSEG": bytes(12), b"CTSEG": b"ciphertext", b"TAGSEG": bytes(16), b"AADSEG": b"aad",
            b"KWIV": bytes(12), b"KWTAG": bytes(16), b"P2S": b"salt-input", b"EPKX": bytes(32), b"EPKY": bytes(32)}
    for i, (k, v) in enumerate(segs.items()):
        env.bind_b64(k, binascii.Error("Only base64 data is allowed") if seg_fail == i + 1 else v)
    env.ceks = [bytes(16), bytes(16)]
    env.epk_invalid = epk_invalid
    env.zfail = zfail
    return env


def _zdecompressobj(wbits=15, *a):
    d = ice.FakeZlib.decompressobj(wbits)
    if getattr(ice.CUR, "zfail", False):
        def bad(data, max_length=0):
            raise zlib.error("Error -3 while decompressing data: invalid block type")
        d.decompress = bad
    return d


def jwe_patches():
    return patches() + [(zlib, "decompressobj", _zdecompressobj)]


def _jwe_entry(entry, alg_i, ek_present=True, extra_top=None, key=None):
    key = key if key is not None else jwe_key(alg_i)
    ek = b"EKSEG" if ek_present else b""
    if entry == 0:
        return jwe.decrypt_compact(b"PROTSEG." + ek + b".IVSEG.CTSEG.TAGSEG", key, algorithms=ALLOWED)
    if entry == 3:
        return jwt.decode(b"PROTSEG." + ek + b".IVSEG.CTSEG.TAGSEG", key, registry=JWERegistry(algorithms=ALLOWED))
    value = {"protected": "PROTSEG", "iv": "IVSEG", "ciphertext": "CTSEG", "tag": "TAGSEG"}
    value.update(extra_top or {})
    r = {}
    if ek_present:
        r["encrypted_key"] = "EKSEG"
    if entry == 1:
        value.update(r)
    else:
        value["recipients"] = [r]
    return jwe.decrypt_json(value, key, algorithms=ALLOWED)


def jwe_keyset_kid(kind: int, n: int, s: str, kw: bool, entry: int, v0: bool, v1: bool) -> bool:
    """
    PRE: 0 <= kind < NK and len(s) <= 2 and -2 <= n <= 2 and 0 <= entry <= 3
    POST: _
    """
    # the key is a KeySet and the token's "kid" is any JSON value: key resolution runs BEFORE header validation on the JWE paths
    rt.tick()
    alg_i = 1 if kw else 0
    hdr = base_header(alg_i)
    hdr["kid"] = val(kind, n, s)
    env = jwe_env(hdr, [v0, v1, v1])
    ks = KeySet([jwe_key(alg_i), ice.fake_key("oct16", kid="b")])
    return guarded(env, lambda: _jwe_entry(entry, alg_i, key=ks), jwe_patches())


def jwe_header_value(top_kind: int, n: int, s: str, json_fail: int, entry: int, v0: bool) -> bool:
    """
    PRE: 0 <= top_kind < NK and len(s) <= 2 and -2 <= n <= 2 and 0 <= json_fail <= 3 and 0 <= entry <= 3
    POST: _
    """
    rt.tick()
    env = jwe_env(val(top_kind, n, s), [v0, v0], json_fail)
    return guarded(env, lambda: _jwe_entry(entry, 0), jwe_patches())


B64_MEMBERS = {"apu", "apv", "p2s", "iv", "tag", "x", "y", "d"}
B64_POOL = ["EPKX", "zz", "", "KWIV", "!!"]


def member_val(name, kind, n, s):
    """members whose str value is base64url text: the text is a known segment / an unknown token / empty / non-base64
    (picked by n) -- the decoder's behaviour on arbitrary characters is C19's subject, and a symbolic str pushed through the
    real urlsafe_b64decode wrapper explodes CrossHair's path count"""
    if kind == 3 and name in B64_MEMBERS:
        return B64_POOL[n % 5]
    return val(kind, n, s)


def _jwe_member(alg_i, member_i, present, kind, n, s, entry, v0, v1, has_zip=False, zfail=False):
    rt.tick()
    hdr = base_header(alg_i)
    if has_zip:
        hdr["zip"] = "DEF"
    m = JMEMBERS[member_i]
    if present:
        hdr[m] = member_val(m, kind, n, s)
    else:
        hdr.pop(m, None)
    env = jwe_env(hdr, [v0, v1, v1], zfail=zfail)
    return guarded(env, lambda: _jwe_entry(entry, alg_i), jwe_patches())


def jwe_member_dir(kind: int, member_i: int, present: bool, n: int, s: str, entry: int, v0: bool) -> bool:
    """
    PRE: 0 <= member_i < 13 and 0 <= kind < NK and len(s) <= 2 and -2 <= n <= 2 and 0 <= entry <= 3
    POST: _
    """
    return _jwe_member(0, member_i, present, kind, n, s, entry, v0, v0)


def jwe_member_kw(kind: int, member_i: int, present: bool, n: int, s: str, entry: int, v0: bool, v1: bool) -> bool:
    """
    PRE: 0 <= member_i < 13 and 0 <= kind < NK and len(s) <= 2 and -2 <= n <= 2 and 0 <= entry <= 2
    POST: _
    """
    return _jwe_member(1, member_i, present, kind, n, s, entry, v0, v1)


def jwe_member_gcmkw(kind: int, member_i: int, present: bool, n: int, s: str, entry: int, v0: bool, v1: bool) -> bool:
    """
    PRE: 9 <= member_i < 13 and 0 <= kind < NK and len(s) <= 2 and -2 <= n <= 2 and 0 <= entry <= 2
    POST: _
    """
    return _jwe_member(2, member_i, present, kind, n, s, entry, v0, v1)


def jwe_member_ecdh(kind: int, member_i: int, kw: bool, present: bool, n: int, s: str, entry: int, v0: bool, v1: bool) -> bool:
    """
    PRE: 3 <= member_i <= 7 and 0 <= kind < NK and len(s) <= 2 and -2 <= n <= 2 and 0 <= entry <= 2
    POST: _
    """
    return _jwe_member(5 if kw else 4, member_i, present, kind, n, s, entry, v0, v1)


def jwe_member_pbes2(kind: int, member_i: int, present: bool, n: int, s: str, entry: int, v0: bool, v1: bool) -> bool:
    """
    PRE: 8 <= member_i <= 9 and 0 <= kind < NK and len(s) <= 2 and -2 <= n <= 2 and 0 <= entry <= 2
    POST: _
    """
    return _jwe_member(6, member_i, present, kind, n, s, entry, v0, v1)


def jwe_p2c_any_int(n: int, as_bool: bool, entry: int, v0: bool, v1: bool) -> bool:
    """
    pre: 0 <= entry <= 2
    post: _
    """
    rt.tick()
    hdr = base_header(6)
    hdr["p2c"] = (n % 2 == 0) if as_bool else n
    env = jwe_env(hdr, [v0, v1, v1])
    return guarded(env, lambda: _jwe_entry(entry, 6), jwe_patches())


EPKM = ["kty", "crv", "x", "y", "d", "use", "key_ops", "alg", "kid"]


def jwe_epk_member(kind: int, member_i: int, okp: bool, present: bool, n: int, s: str, epk_invalid: bool, v0: bool) -> bool:
    """
    PRE: 0 <= member_i < 9 and 0 <= kind < NK and len(s) <= 2 and -2 <= n <= 2
    POST: _
    """
    rt.tick()
    hdr = base_header(4)
    if okp:
        hdr["epk"] = {"kty": "OKP", "crv": "X25519", "x": "EPKX"}
    epk = hdr["epk"]
    if present:
        epk[EPKM[member_i]] = member_val(EPKM[member_i], kind, n, s)
    else:
        epk.pop(EPKM[member_i], None)
    env = jwe_env(hdr, [v0, v0], epk_invalid=epk_invalid)
    key = KX if okp else KEC
    return guarded(env, lambda: jwe.decrypt_compact(b"PROTSEG..IVSEG.CTSEG.TAGSEG", key, algorithms=ALLOWED), jwe_patches())


def jwe_segments(alg_i: int, seg_fail: int, ek_present: bool, entry: int, has_zip: bool, zfail: int, v0: bool, v1: bool) -> bool:
    """
    PRE: 0 <= alg_i <= 6 and 0 <= seg_fail <= 10 and 0 <= entry <= 3 and 0 <= zfail <= 2
    POST: _
    """
    rt.tick()
    hdr = base_header(alg_i)
    if has_zip:
        hdr["zip"] = "DEF"
    env = jwe_env(hdr, [v0, v1, v1], seg_fail=seg_fail, zfail=zfail > 0)
    if zfail == 2:
        env.plaintext = b"\x78\x9c-corrupt-zlib-stream"       # authenticated data that starts like a zlib stream but is not one
    return guarded(env, lambda: _jwe_entry(entry, alg_i, ek_present), jwe_patches())


def jwe_cbc(kw: bool, cbc_shape: int, iv_i: int, tag_i: int, has_zip: bool, entry: int, v0: bool, v1: bool) -> bool:
    """
    pre: 0 <= cbc_shape <= 3 and 0 <= iv_i <= 2 and 0 <= tag_i <= 2 and 0 <= entry <= 3
    post: _
    """
    # A128CBC-HS256: the MAC comparison verdict is the solver's; what CBC decryption yields under a valid tag is the sender's choice
    rt.tick()
    hdr = {"alg": "A128KW" if kw else "dir", "enc": "A128CBC-HS256"}
    if has_zip:
        hdr["zip"] = "DEF"
    env = jwe_env(hdr, [v0, v1, v1])
    env.bind_b64(b"IVSEG", bytes([16, 12, 0][iv_i]))
    env.bind_b64(b"TAGSEG", bytes([16, 8, 0][tag_i]))
    env.bind_b64(b"CTSEG", b"" if cbc_shape == 1 else bytes(16))
    env.ceks = [bytes(32), bytes(32)]
    env.cbc_shape = cbc_shape
    key = K32 if not kw else K16
    tok = b"PROTSEG." + (b"EKSEG" if kw else b"") + b".IVSEG.CTSEG.TAGSEG"

    def run():
        if entry == 0:
            return jwe.decrypt_compact(tok, key, algorithms=ALLOWED)
        if entry == 3:
            return jwt.decode(tok, key, registry=JWERegistry(algorithms=ALLOWED))
        value = {"protected": "PROTSEG", "iv": "IVSEG", "ciphertext": "CTSEG", "tag": "TAGSEG"}
        r = {"encrypted_key": "EKSEG"} if kw else {}
        if entry == 1:
            value.update(r)
        else:
            value["recipients"] = [r]
        return jwe.decrypt_json(value, key, algorithms=ALLOWED)
    return guarded(env, run, jwe_patches())


def jwe_json_shape(alg_i: int, has_unprot: bool, has_hdr: bool, has_aad: bool, ek_present: bool, n_rec: int, alg_where: int, v0: bool, v1: bool) -> bool:
    """
    PRE: 0 <= alg_i <= 6 and 0 <= n_rec <= 2 and 0 <= alg_where <= 3
    POST: _
    """
    rt.tick()
    hdr = base_header(alg_i)
    alg = hdr.pop("alg")
    prot, unprot, rh = dict(hdr), {}, {}
    [prot, unprot, rh, {}][alg_where]["alg"] = alg
    env = jwe_env(prot, [v0, v1, v1, v1])
    value = {"protected": "PROTSEG", "iv": "IVSEG", "ciphertext": "CTSEG", "tag": "TAGSEG"}
    if has_unprot or alg_where == 1:
        value["unprotected"] = unprot
    if has_aad:
        value["aad"] = "AADSEG"
    rec = {}
    if has_hdr or alg_where == 2:
        rec["header"] = rh
    if ek_present:
        rec["encrypted_key"] = "EKSEG"
    value["recipients"] = [dict(rec) for _ in range(n_rec)]
    return guarded(env, lambda: jwe.decrypt_json(value, jwe_key(alg_i), algorithms=ALLOWED), jwe_patches())


def jwe_witness(alg_i: int, entry: int, v0: bool, v1: bool) -> bool:
    """
    pre: 0 <= alg_i <= 6 and 0 <= entry <= 2
    post: _
    """
    env = jwe_env(base_header(alg_i), [v0, v1, v1])
    with env.installed(jwe_patches()):
        try:
            _jwe_entry(entry, alg_i, ALGS[alg_i] not in ("dir", "ECDH-ES"))
        except Exception:  # noqa
            return True
    return alg_i != 6


# ------------------------------------------------------------------ replay on the real code
def _b64(x):
    import base64
    return base64.urlsafe_b64encode(x).rstrip(b"=")


def _real_jws(func, args):
    from vlib import refjose as R
    from joserfc.jwk import OctKey
    import hmac, hashlib
    jwk = dict(R.test_key("oct32"), kid="a")
    key = OctKey.import_key(jwk)
    payload = b'{"sub":"x"}'
    text = None
    general = use7797 = False
    unprot = None
    if func == "jws_header_value":
        top_kind, n, s, json_fail, b64_fail, entry, vr = args
        hv = val(top_kind, n, s)
        text = json.dumps(hv).encode()
        if json_fail == 1:
            text = b"{not json"
        elif json_fail == 2:
            text = b'{"alg":"HS256","x":"\xff"}'
        elif json_fail == 3:
            text = b'{"alg":"HS256","x":' + b"[" * 100000 + b"]" * 100000 + b"}"
        hseg = b"!!!" if b64_fail else _b64(text)
    elif func in ("jws_member", "jws_crit_pairs", "jws_keyset_kid"):
        if func == "jws_member":
            kind, member_i, n, s, with_alg, entry, vr = args
            hdr = {"alg": "HS256"} if with_alg else {}
            hdr[MEMBERS[member_i]] = val(kind, n, s)
        elif func == "jws_crit_pairs":
            crit_kind, n, s, b64_kind, entry, vr = args
            hdr = {"alg": "HS256", "crit": val(crit_kind, n, s), "b64": val(b64_kind, n, s)}
        else:
            kind, n, s, vr = args
            hdr, entry = {"alg": "HS256", "kid": val(kind, n, s)}, 6
        hseg = _b64(json.dumps(hdr).encode())
    elif func == "jws_unprotected_member":
        kind, member_i, n, s, general, use7797, vr = args
        hseg = _b64(b'{"alg":"HS256"}')
        unprot = {MEMBERS[member_i]: val(kind, n, s)}
        entry = 7
    elif func == "jwt_payload":
        kind, n, s, payload_fail, vr = args
        hseg = _b64(b'{"alg":"HS256"}')
        payload = json.dumps(val(kind, n, s)).encode()
        if payload_fail == 1:
            payload = b"not json"
        elif payload_fail == 2:
            payload = b'{"name":"Jos\xe9"}'
        elif payload_fail == 3:
            payload = b"[" * 100000 + b"]" * 100000
        entry = 3
    else:
        return None
    pseg = _b64(payload)
    sig = hmac.new(R.b64d(jwk["k"]), hseg + b"." + pseg, hashlib.sha256).digest()
    if not vr:
        sig = bytes([sig[0] ^ 1]) + sig[1:]
    sseg = _b64(sig)
    tok = hseg + b"." + pseg + b"." + sseg

    def call():
        if entry == 0:
            return jws.deserialize_compact(tok, key)
        if entry == 1:
            return jws.deserialize_json({"payload": pseg.decode(), "protected": hseg.decode(), "signature": sseg.decode()}, key)
        if entry == 2:
            return jws.deserialize_json({"payload": pseg.decode(), "signatures": [{"protected": hseg.decode(), "signature": sseg.decode()}]}, key)
        if entry == 3:
            return jwt.decode(tok, key)
        if entry == 4:
            return d7797_compact(tok, key)
        if entry == 5:
            return d7797_json({"payload": pseg.decode(), "protected": hseg.decode(), "signature": sseg.decode()}, key)
        if entry == 6:
            return jws.deserialize_compact(tok, KeySet([key, OctKey.import_key(dict(R.test_key("oct48"), kid="b"))]))
        sg = {"protected": hseg.decode(), "header": unprot, "signature": sseg.decode()}
        value = {"payload": pseg.decode(), "signatures": [sg]} if general else {"payload": pseg.decode(), **sg}
        if use7797 and not general:
            return d7797_json(value, key)
        return jws.deserialize_json(value, key)
    return call, "token=%r" % (tok[:200],)


def _real_jwe(func, args):
    """dir / A128KW tokens with a VALID tag under the real key so that post-authentication code is reached when the model says so"""
    from vlib import refjose as R
    from joserfc.jwk import JWKRegistry
    seg_fail, ek_present, entry, has_zip, zfail, json_fail = 0, True, 0, False, 0, 0
    epk_invalid = False
    okp = False
    if func == "jwe_header_value":
        top_kind, n, s, json_fail, entry, v0 = args
        hdr, alg_i, v1 = val(top_kind, n, s), 0, v0
    elif func.startswith("jwe_member_"):
        if func == "jwe_member_dir":
            kind, member_i, present, n, s, entry, v0 = args
            alg_i, v1 = 0, v0
        elif func == "jwe_member_ecdh":
            kind, member_i, kw, present, n, s, entry, v0, v1 = args
            alg_i = 5 if kw else 4
        else:
            kind, member_i, present, n, s, entry, v0, v1 = args
            alg_i = {"jwe_member_kw": 1, "jwe_member_gcmkw": 2, "jwe_member_pbes2": 6}[func]
        hdr = None
    elif func == "jwe_epk_member":
        kind, member_i, okp, present, n, s, epk_invalid, v0 = args
        alg_i, v1, hdr = 4, v0, None
    elif func == "jwe_keyset_kid":
        kind, n, s, kw, entry, v0, v1 = args
        alg_i, hdr = (1 if kw else 0), None
    elif func == "jwe_segments":
        alg_i, seg_fail, ek_present, entry, has_zip, zfail, v0, v1 = args
        hdr = None
    elif func == "jwe_p2c_any_int":
        n, as_bool, entry, v0, v1 = args
        alg_i, hdr = 6, None
    else:
        return None
    alg = ALGS[alg_i]
    kind_key = {"dir": "oct16", "A128KW": "oct16", "A128GCMKW": "oct16", "RSA-OAEP": "RSA2048", "ECDH-ES": "X25519" if okp else "P-256",
                "ECDH-ES+A128KW": "P-256", "PBES2-HS256+A128KW": "oct32"}[alg]
    jwk = R.test_key(kind_key)
    key = JWKRegistry.import_key(jwk)
    add, ek, cek = R.key_manage(alg, "A128GCM", R.public_jwk(jwk) if jwk["kty"] != "oct" else jwk, p2s=b"salt-input", p2c=1000)
    if hdr is None:
        hdr = {"alg": alg, "enc": "A128GCM", **add}
        if has_zip:
            hdr["zip"] = "DEF"
        if func.startswith("jwe_member_"):
            m = JMEMBERS[member_i]
            if present:
                hdr[m] = member_val(m, kind, n, s) if not (kind == 3 and m in B64_MEMBERS) else ["AAAA", "zz", "", "AAAAAAAAAAAAAAAA", "!!"][n % 5]
            else:
                hdr.pop(m, None)
        if func == "jwe_p2c_any_int":
            hdr["p2c"] = (n % 2 == 0) if as_bool else n
        if func == "jwe_keyset_kid":
            from joserfc.jwk import KeySet as _KS, OctKey as _OK
            hdr["kid"] = val(kind, n, s)
            key = _KS([JWKRegistry.import_key(dict(jwk, kid="a")), _OK.import_key(dict(R.test_key("oct16"), k=R.b64e(b"another-16-octet"), kid="b"))])
        if func == "jwe_epk_member":
            epk = dict(hdr["epk"])
            if present:
                mm = EPKM[member_i]
                epk[mm] = val(kind, n, s) if not (kind == 3 and mm in B64_MEMBERS) else ["AAAA", "zz", "", "AAAAAAAAAAAAAAAA", "!!"][n % 5]
            else:
                epk.pop(EPKM[member_i], None)
            if epk_invalid and isinstance(epk.get("x"), str):
                epk["x"] = R.b64e(b"\x01" * len(R.b64d(hdr["epk"]["x"])))
            hdr["epk"] = epk
    text = json.dumps(hdr).encode()
    if json_fail == 1:
        text = b"{not json"
    elif json_fail == 2:
        text = b'{"alg":"dir","enc":"A128GCM","x":"\xff"}'
    elif json_fail == 3:
        text = b'{"alg":"dir","enc":"A128GCM","x":' + b"[" * 100000 + b"]" * 100000 + b"}"
    hseg = _b64(text)
    iv = bytes(12)
    pt = (b"\xff\xff\xff\xff" if zfail == 1 else b"\x78\x9c\xff\xff\xff\xff") if zfail else (zlib.compress(b"plaintext")[2:-4] if has_zip else b"plaintext")
    try:
        ct, tag = R.content_encrypt("A128GCM", cek if len(cek) == 16 else bytes(16), iv, hseg, pt)
    except Exception:  # noqa
        ct, tag = b"ciphertext", bytes(16)
    if not v1:
        tag = bytes([tag[0] ^ 1]) + tag[1:]
    if not v0 and ek:
        ek = bytes([ek[0] ^ 1]) + ek[1:]
    segs = [hseg, _b64(ek) if ek_present else b"", _b64(iv), _b64(ct), _b64(tag)]
    bad = b"!!"
    fail_map = {1: 1, 2: 2, 3: 3, 4: 4}
    if seg_fail in fail_map:
        segs[fail_map[seg_fail]] = bad
    tok = b".".join(segs)

    def call():
        if entry == 0:
            return jwe.decrypt_compact(tok, key, algorithms=ALLOWED)
        if entry == 3:
            return jwt.decode(tok, key, registry=JWERegistry(algorithms=ALLOWED))
        value = {"protected": segs[0].decode(), "iv": segs[2].decode(), "ciphertext": segs[3].decode(), "tag": segs[4].decode()}
        r = {"encrypted_key": segs[1].decode()} if ek_present else {}
        if entry == 1:
            value.update(r)
        else:
            value["recipients"] = [r]
        return jwe.decrypt_json(value, key, algorithms=ALLOWED)
    return call, "token=%r" % (tok[:300],)


def _real_jwe_cbc(args):
    """A128CBC-HS256 tokens whose tag is VALID (the sender knows the CEK) over a ciphertext of the sender's choice: well padded, empty,
    a block with bad padding, or one block of pure padding"""
    import hmac as _h, hashlib as _hl, struct
    from vlib import refjose as R
    from joserfc.jwk import JWKRegistry
    from cryptography.hazmat.primitives.ciphers import Cipher, algorithms, modes
    kw, cbc_shape, iv_i, tag_i, has_zip, entry, v0, v1 = args
    alg = "A128KW" if kw else "dir"
    jwk = R.test_key("oct16" if kw else "oct32")
    key = JWKRegistry.import_key(jwk)
    add, ek, cek = R.key_manage(alg, "A128CBC-HS256", jwk)
    hdr = {"alg": alg, "enc": "A128CBC-HS256", **({"zip": "DEF"} if has_zip else {})}
    hseg = _b64(json.dumps(hdr).encode())
    iv = bytes([16, 12, 0][iv_i])
    mac_key, enc_key = cek[:16], cek[16:]
    inner = zlib.compress(b"plaintext")[2:-4] if has_zip else b"plaintext"

    def cbc(raw):
        e = Cipher(algorithms.AES(enc_key), modes.CBC(iv if len(iv) == 16 else bytes(16))).encryptor()
        return e.update(raw) + e.finalize()
    pad = 16 - len(inner) % 16
    ct = [cbc(inner + bytes([pad]) * pad), b"", cbc(b"\x00" * 16), cbc(bytes([16]) * 16)][cbc_shape]
    tag = _h.new(mac_key, hseg + iv + ct + struct.pack(">Q", 8 * len(hseg)), _hl.sha256).digest()[:16]
    tag_ok, unwrap_ok = (v1, v0) if kw else (v0, True)          # verdicts are consumed in call order: unwrap (if any), then the MAC comparison
    if not tag_ok:
        tag = bytes([tag[0] ^ 1]) + tag[1:]
    tag = [tag, tag[:8], b""][tag_i]
    if not unwrap_ok and ek:
        ek = bytes([ek[0] ^ 1]) + ek[1:]
    segs = [hseg, _b64(ek) if kw else b"", _b64(iv), _b64(ct), _b64(tag)]
    tok = b".".join(segs)

    def call():
        if entry == 0:
            return jwe.decrypt_compact(tok, key, algorithms=ALLOWED)
        if entry == 3:
            return jwt.decode(tok, key, registry=JWERegistry(algorithms=ALLOWED))
        value = {"protected": segs[0].decode(), "iv": segs[2].decode(), "ciphertext": segs[3].decode(), "tag": segs[4].decode()}
        r = {"encrypted_key": segs[1].decode()} if kw else {}
        if entry == 1:
            value.update(r)
        else:
            value["recipients"] = [r]
        return jwe.decrypt_json(value, key, algorithms=ALLOWED)
    return call, "A128CBC-HS256 token with %s under a %s tag: %r" % (["a well padded", "an EMPTY", "a badly padded", "a padding-only"][cbc_shape] + " ciphertext", "valid" if tag_ok else "wrong", tok[:200])


def replay(func, call):
    import warnings
    warnings.simplefilter("ignore")
    args = eval("(" + call + ",)")
    built = _real_jws(func, args) if func.startswith(("jws_", "jwt_")) else (_real_jwe_cbc(args) if func == "jwe_cbc" else _real_jwe(func, args))
    if built is None:
        return {"violated": None, "detail": "no replay for %s" % func}
    fn, desc = built
    try:
        fn()
        return {"violated": False, "detail": "real code returned; " + desc}
    except Exception as e:  # noqa
        if ok_exc(e):
            return {"violated": False, "detail": "real code raised %s; %s" % (type(e).__name__, desc)}
        return {"violated": True, "key": "c16-%s-%s" % (func, type(e).__name__),
                "detail": "escaped with %s: %s; %s" % (type(e).__name__, str(e)[:120], desc)}
