"""C17 harnesses: DeflateZipModel.decompress against the documented contract of zlib's Decompress object.

Stub (zlib.decompressobj): an object holding a stream that expands to `total` octets (symbolic, unbounded).
decompress(data, max_length) returns min(remaining, max_length) octets (all remaining when max_length == 0);
when the output was cut it leaves EITHER a non-empty unconsumed_tail OR (documented zlib behaviour) an empty tail with
output still pending inside the object and eof False; eof is True only when the stream end was reached.
flush(length=None) returns everything pending (unbounded unless a length is given)."""
from unittest import mock
import zlib
import joserfc.rfc7518.jwe_zips as Z
from joserfc.errors import ExceededSizeError, JoseError
from vlib import rt

LIMIT = 256000


class FakeBytes:
    def __init__(self, n):
        self.n = n

    def __len__(self):
        return self.n


class FakeD:
    def __init__(self, total, cut_with_tail, corrupt):
        self.remaining = total
        self.cut_with_tail = cut_with_tail
        self.corrupt = corrupt
        self.unconsumed_tail = b""
        self.unused_data = b""
        self.eof = False
        self.materialised = 0
        self.unbounded = False
        self.calls = []

    def _emit(self, limit):
        if self.corrupt:
            raise zlib.error("Error -3 while decompressing data: invalid block type")
        if limit is None or limit <= 0:
            self.unbounded = True
            out = self.remaining
        else:
            out = self.remaining if self.remaining <= limit else limit
        self.remaining = self.remaining - out
        self.materialised = self.materialised + out
        if self.remaining > 0:
            self.eof = False
            self.unconsumed_tail = b"x" if self.cut_with_tail else b""
        else:
            self.eof = True
            self.unconsumed_tail = b""
        return FakeBytes(out)

    def decompress(self, data, max_length=0):
        self.calls.append(("decompress", max_length))
        return self._emit(max_length)

    def flush(self, length=None):
        self.calls.append(("flush", length))
        return self._emit(length)


class BigBytes(bytes):
    """compressed input whose LENGTH is a harness variable (content: the two header octets that decide raw vs zlib framing)"""
    def __len__(self):
        return self.n


def run(total, cut_with_tail, corrupt, zlib_header, n_in=None):
    made = []

    def factory(*a, **k):
        d = FakeD(total, cut_with_tail, corrupt)
        d.wbits = a[0] if a else k.get("wbits", 15)
        made.append(d)
        return d

    data = (Z.GZIP_HEAD if zlib_header else b"") + b"\x01\x02"
    if n_in is not None:
        data = BigBytes(data)
        data.n = n_in
    with mock.patch.object(zlib, "decompressobj", factory):
        try:
            v = Z.DeflateZipModel().decompress(data)
            out = ("ret", v)
        except ExceededSizeError:
            out = ("exceeded", None)
        except (JoseError, ValueError):
            out = ("rejected", None)
    return out, made


def bounded(total: int, cut_with_tail: bool, zlib_header: bool, n_in: int) -> bool:
    """
    pre: total >= 0 and n_in >= 4
    post: _
    """
    # n_in: length of the compressed input (incompressible data is LONGER compressed than plain: stored blocks add 5 octets per 64 KiB)
    rt.tick()
    out, made = run(total, cut_with_tail, False, zlib_header, n_in)
    if len(made) != 1:
        return False
    d = made[0]
    # raw stream unless the default zlib header is present
    if zlib_header != (d.wbits > 0):
        return False
    if d.unbounded or d.materialised > LIMIT:
        return False                       # more than 256,000 octets were materialised
    if total <= LIMIT:
        return out[0] == "ret" and len(out[1]) == total
    return out[0] == "exceeded"


def corrupt_stream(total: int, cut_with_tail: bool, zlib_header: bool) -> bool:
    """
    pre: total >= 0
    post: _
    """
    out, made = run(total, cut_with_tail, True, zlib_header)
    return out[0] in ("rejected", "exceeded")


def witness_accept(total: int, cut_with_tail: bool, zlib_header: bool) -> bool:
    """
    pre: total >= 0
    post: _
    """
    out, made = run(total, cut_with_tail, False, zlib_header)
    return not (out[0] == "ret" and total == LIMIT and zlib_header)


def witness_exceed(total: int, cut_with_tail: bool, zlib_header: bool) -> bool:
    """
    pre: total >= 0
    post: _
    """
    out, made = run(total, cut_with_tail, False, zlib_header)
    return not (out[0] == "exceeded" and not cut_with_tail)


def _data(n, compressible):
    if compressible:
        return b"h" * n
    import hashlib
    out = bytearray()
    i = 0
    while len(out) < n:
        out += hashlib.sha256(b"%d" % i).digest()
        i += 1
    return bytes(out[:n])


def replay(func, call):
    """Real zlib, real DeflateZipModel: plaintext of `total` octets (clamped to a few MiB above the limit), constant data when the
    counterexample has no unconsumed tail (highly compressible: output pending inside the object), pseudo-random otherwise."""
    import tracemalloc
    args = eval("(" + call + ",)")
    total, cut_with_tail, zlib_header = args[:3]
    z = Z.DeflateZipModel()
    if func == "corrupt_stream":
        blob = (Z.GZIP_HEAD if zlib_header else b"") + b"\xff\xff\xff\xff"
        try:
            z.decompress(blob)
            return {"violated": False, "detail": "corrupt stream returned"}
        except (JoseError, ValueError):
            return {"violated": False, "detail": "rejected with JoseError/ValueError"}
        except Exception as e:  # noqa
            return {"violated": True, "key": "c17-corrupt", "detail": "corrupt DEFLATE data raised %s" % type(e).__name__}
    n = total if total <= LIMIT + 4096 else LIMIT + 4096 + (total % 4096)
    results = []
    for compressible in ([not cut_with_tail, cut_with_tail]):
        pt = _data(n, compressible)
        comp = zlib.compress(pt) if zlib_header else z.compress(pt)
        try:
            r = z.decompress(comp)
            res = "returned %d octets (equal=%s)" % (len(r), r == pt)
            bad = n > LIMIT or r != pt
        except ExceededSizeError:
            res = "ExceededSizeError"
            bad = n <= LIMIT
        except Exception as e:  # noqa
            res = "raised %s" % type(e).__name__
            bad = True
        results.append("plaintext %d octets (%s) -> %s" % (n, "constant" if compressible else "pseudo-random", res))
        if bad:
            return {"violated": True, "key": "c17-bound-%s" % ("cut" if n > LIMIT else "roundtrip"), "detail": "; ".join(results)}
    # incompressible plaintexts at and just below the limit (their DEFLATE stream is longer than the plaintext), both framings
    for n2 in (LIMIT, LIMIT - 1, LIMIT - 40, LIMIT - 79):
        pt = _data(n2, False)
        for hdr in (False, True):
            comp = zlib.compress(pt) if hdr else z.compress(pt)
            try:
                ok = z.decompress(comp) == pt
                res = "round trip %s" % ok
            except Exception as e:  # noqa
                ok, res = False, "raised %s" % type(e).__name__
            if not ok:
                return {"violated": True, "key": "c17-bound-roundtrip", "detail": "incompressible plaintext of %d octets (<= limit), %s stream of %d octets -> %s"
                        % (n2, "zlib-framed" if hdr else "raw", len(comp), res)}
    # memory bound: a 64 MiB bomb must not be inflated, with raw and with zlib framing
    peak = 0
    for hdr in (False, True):
        bomb = zlib.compress(b"\0" * (64 << 20)) if hdr else z.compress(b"\0" * (64 << 20))
        tracemalloc.start()
        try:
            z.decompress(bomb)
            res = "returned"
        except ExceededSizeError:
            res = "ExceededSizeError"
        except Exception as e:  # noqa
            res = type(e).__name__
        peak = tracemalloc.get_traced_memory()[1]
        tracemalloc.stop()
        if res != "ExceededSizeError" or peak > 4 * LIMIT:
            return {"violated": True, "key": "c17-memory", "detail": "64 MiB bomb (%s framing): %s, peak traced allocation %d octets" % ("zlib" if hdr else "raw", res, peak)}
    return {"violated": False, "detail": "; ".join(results) + "; bomb peak %d" % peak}
