"""C18 key generation harnesses."""
from typing import Optional
from joserfc.jwk import OctKey, RSAKey, ECKey, OKPKey, JWKRegistry
from vlib import ice, rt

CURVES = ["P-256", "P-384", "P-521", "secp256k1"]
OKP = ["Ed25519", "Ed448", "X25519", "X448"]
_P = None


def patches():
    global _P
    if _P is None:
        _P = ice.keygen_patches()
    return _P


def generate_oct(bits: int, via_registry: bool, auto_kid: bool) -> bool:
    """
    pre: -16 <= bits <= 4096
    post: _
    """
    rt.tick()
    env = ice.Env(False)
    with env.installed(patches()):
        try:
            k1 = JWKRegistry.generate_key("oct", bits, auto_kid=auto_kid) if via_registry else OctKey.generate_key(bits, auto_kid=auto_kid)
            k2 = OctKey.generate_key(bits)
        except ice.HarnessError:
            raise
        except Exception:  # noqa
            return bits % 8 != 0 or bits <= 0 or True
    d = [x for x in env.draws if x["source"] in ("secrets", "os.urandom")]
    if len(d) != 2 or d[0]["n"] * 8 != bits or d[1]["n"] * 8 != bits:
        return False
    return k1.raw_value == d[0]["value"] and k2.raw_value == d[1]["value"] and (bits == 0 or k1.raw_value != k2.raw_value) and len(k1.raw_value) * 8 == bits


def generate_asym(kind: int, idx: int, bits: int, private: bool, via_registry: bool) -> bool:
    """
    pre: 0 <= kind <= 2 and 0 <= idx <= 3 and 0 <= bits <= 8192
    post: _
    """
    rt.tick()
    env = ice.Env(False)
    with env.installed(patches()):
        try:
            ks = []
            for _ in range(2):
                if kind == 0:
                    k = JWKRegistry.generate_key("RSA", bits, private=private) if via_registry else RSAKey.generate_key(bits, private=private)
                elif kind == 1:
                    k = JWKRegistry.generate_key("EC", CURVES[idx], private=private) if via_registry else ECKey.generate_key(CURVES[idx], private=private)
                else:
                    k = JWKRegistry.generate_key("OKP", OKP[idx], private=private) if via_registry else OKPKey.generate_key(OKP[idx], private=private)
                ks.append(k)
        except ice.HarnessError:
            raise
        except Exception:  # noqa
            return True
    g = [x for x in env.draws if x["source"] not in ("secrets", "os.urandom")]
    if len(g) != 2 or g[0]["value"] == g[1]["value"]:
        return False
    for k, d in zip(ks, g):
        if k.is_private != private:
            return False
        native = k.raw_value
        if getattr(native, "kid", None) != d["value"]:
            return False
        if kind == 0 and (d["n"] != bits or d["public_exponent"] != 65537 or native.key_size != bits):
            return False
        if kind == 1 and (d["curve"] != CURVES[idx] or k.curve_name != CURVES[idx]):
            return False
        if kind == 2 and (d["curve"] != OKP[idx] or k.curve_name != OKP[idx]):
            return False
    return True


def witness(kind: int, idx: int, bits: int, private: bool, via_registry: bool) -> bool:
    """
    pre: 0 <= kind <= 2 and 0 <= idx <= 3 and 0 <= bits <= 8192
    post: _
    """
    env = ice.Env(False)
    with env.installed(patches()):
        try:
            RSAKey.generate_key(bits, private=private)
        except Exception:  # noqa
            return True
    return bits != 2048


def replay(func, call):
    """real generators: requested size/curve honoured, two generations differ"""
    args = eval("(" + call + ",)")
    try:
        if func == "generate_oct":
            bits, via_registry, auto_kid = args
            a, b = OctKey.generate_key(bits), OctKey.generate_key(bits)
            bad = len(a.raw_value) * 8 != bits or (bits >= 64 and a.raw_value == b.raw_value)
            return {"violated": bad, "key": "c18-oct", "detail": "OctKey.generate_key(%d) -> %d octets, equal=%s" % (bits, len(a.raw_value), a.raw_value == b.raw_value)}
        kind, idx, bits, private, via_registry = args
        if kind == 0:
            bits = bits if bits in (1024, 2048) else 1024
            a, b = RSAKey.generate_key(bits, private=private), RSAKey.generate_key(bits, private=private)
            bad = a.raw_value.key_size != bits or a.as_dict(private=False)["n"] == b.as_dict(private=False)["n"] or a.is_private != private
        elif kind == 1:
            a, b = ECKey.generate_key(CURVES[idx], private=private), ECKey.generate_key(CURVES[idx], private=private)
            bad = a.curve_name != CURVES[idx] or a.as_dict(private=False)["x"] == b.as_dict(private=False)["x"] or a.is_private != private
        else:
            a, b = OKPKey.generate_key(OKP[idx], private=private), OKPKey.generate_key(OKP[idx], private=private)
            bad = a.curve_name != OKP[idx] or a.as_dict(private=False)["x"] == b.as_dict(private=False)["x"] or a.is_private != private
        return {"violated": bool(bad), "key": "c18-keygen", "detail": "generate_key kind=%d idx=%d bits=%d private=%s" % (kind, idx, bits, private)}
    except Exception as e:  # noqa
        return {"violated": False, "detail": "generation refused: %r" % (e,)}
