"""C20 harnesses: calls that share keys, key sets, registries and algorithm objects are independent.

Decided through a FRAME CONDITION (not by enumerating schedules): each operation kind runs with symbolic arguments on shared
objects; a deep snapshot of every piece of shared mutable state (algorithm singletons, registries and their class-level
tables, key-set class tables, module-level containers of joserfc.*, the shared keys and key sets) is compared before/after.
Allowed: the documented lazy views of a Key -- `_dict_value` filled once (assigned as a complete dict, never built up in
place), its "kid", the cached `public_key` -- and they must be idempotent.  An empty write set implies (a) every sequential
history leaves shared state as in isolation and (b) no two concurrent calls conflict on a location."""
from typing import Optional, List
import sys, types, random, os
from joserfc import jws, jwe, jwt
from joserfc.jwk import OctKey, RSAKey, ECKey, OKPKey, KeySet, JWKRegistry
from joserfc.jws import JWSRegistry
from joserfc.jwe import JWERegistry
from joserfc.errors import JoseError
from vlib import ice, rt
from vlib.harness_loader import load as _load

C16 = _load("c16_errors.py")
_P = None


def patches():
    global _P
    if _P is None:
        _P = C16.patches()
    return _P


patches()        # load every joserfc module now: the snapshot must not see modules appear during the first call
PRIMS = (int, float, str, bytes, bool, type(None))


def freeze(o, depth=0, seen=None):
    """structural snapshot of shared state; leaves that are not containers/models are compared by identity"""
    if seen is None:
        seen = set()
    if isinstance(o, PRIMS):
        return o
    if id(o) in seen or depth > 6:
        return ("ref", type(o).__name__)
    seen = seen | {id(o)}
    tn = type(o).__name__
    if tn in ("ShellMutableSet", "ShellMutableMap", "ShellMutableSequence", "LinearSet", "LazySetCombination", "SimpleDict"):
        # dict(...) / set(...) evaluated under CrossHair's tracing are proxy containers: unpack them with tracing switched back on
        # (the snapshot itself runs untraced), then snapshot the plain copy -- otherwise they would be compared by identity only
        from crosshair.tracers import ResumedTracing
        with ResumedTracing():
            if hasattr(o, "keys"):
                plain = {k: o[k] for k in list(o.keys())}
            else:
                plain = list(o)
        if isinstance(plain, dict):
            return ("dict", tuple(sorted(((repr(k) if not isinstance(k, str) else k), freeze(v, depth + 1, seen)) for k, v in plain.items())))
        if "Set" in tn:
            return ("set", tuple(sorted(repr(x) for x in plain)))
        return ("list", tuple(freeze(v, depth + 1, seen) for v in plain))
    if isinstance(o, dict):
        return ("dict", tuple(sorted(((repr(k) if not isinstance(k, str) else k), freeze(v, depth + 1, seen)) for k, v in o.items())))
    if isinstance(o, (list, tuple)):
        return (type(o).__name__, tuple(freeze(v, depth + 1, seen) for v in o))
    if isinstance(o, (set, frozenset)):
        return ("set", tuple(sorted(repr(x) for x in o)))
    mod = getattr(type(o), "__module__", "")
    if mod.startswith("joserfc") and hasattr(o, "__dict__") and not isinstance(o, type):
        return ("obj", type(o).__name__, freeze(vars(o), depth + 1, seen))
    return ("leaf", type(o).__name__, id(o))


def shared_state(keys=(), keysets=(), objs=()):
    # the snapshot itself is plain bookkeeping: run it outside CrossHair's tracing (it walks every joserfc module)
    try:
        from crosshair.tracers import NoTracing
    except ImportError:  # pragma: no cover
        return _shared_state(keys, keysets, objs)
    with NoTracing():
        return _shared_state(keys, keysets, objs)


def _shared_state(keys=(), keysets=(), objs=()):
    st = {}
    for i, o in enumerate(objs):
        st["shared object %d (%s)" % (i, type(o).__name__)] = freeze(o)
    for name, mod in list(sys.modules.items()):
        if not name.startswith("joserfc") or mod is None:
            continue
        for attr, v in list(vars(mod).items()):
            if attr.startswith("__"):
                continue
            if isinstance(v, (dict, list, set)):
                st["%s.%s" % (name, attr)] = freeze(v)
            elif isinstance(v, type) and getattr(v, "__module__", "").startswith("joserfc"):
                for ca, cv in list(vars(v).items()):
                    if isinstance(cv, (dict, list, set)):
                        st["%s.%s.%s" % (name, attr, ca)] = freeze(cv)
            elif getattr(type(v), "__module__", "").startswith("joserfc") and hasattr(v, "__dict__"):
                st["%s.%s" % (name, attr)] = freeze(v)
    for reg in (JWSRegistry, JWERegistry, KeySet, JWKRegistry):
        for ca, cv in list(vars(reg).items()):
            if isinstance(cv, (dict, list, set)):
                st["class %s.%s" % (reg.__name__, ca)] = freeze(cv)
    for i, k in enumerate(keys):
        d = dict(vars(k))
        dv = d.pop("_dict_value", None)
        d.pop("public_key", None)
        st["key%d" % i] = freeze(d)
        st["key%d.dict" % i] = freeze({a: b for a, b in (dv or {}).items() if a != "kid"})
        st["key%d.kid" % i] = (dv or {}).get("kid")
    for i, ks in enumerate(keysets):
        st["keyset%d" % i] = ("ids", tuple(id(k) for k in ks.keys))
    return st


def diff(a, b, keys):
    out = []
    for k in sorted(set(a) | set(b)):
        if a.get(k) != b.get(k):
            # documented lazy views
            if k.endswith(".dict") and a.get(k) == ("dict", ()):
                continue
            if k.endswith(".kid") and a.get(k) is None:
                continue
            out.append(k)
    return out


class RecDict(dict):
    """the published lazy JWK view of a key: after publication only 'kid' may be written in place"""
    def __init__(self, *a, log=None, **k):
        super().__init__(*a, **k)
        self.log = log if log is not None else []

    def __setitem__(self, k, v):
        self.log.append(("set", k))
        super().__setitem__(k, v)

    def update(self, *a, **k):
        self.log.append(("update", None))
        super().update(*a, **k)

    def __delitem__(self, k):
        self.log.append(("del", k))
        super().__delitem__(k)

    def pop(self, *a):
        self.log.append(("pop", a[0] if a else None))
        return super().pop(*a)

    def setdefault(self, k, d=None):
        self.log.append(("set", k))
        return super().setdefault(k, d)

    def clear(self):
        self.log.append(("clear", None))
        super().clear()


def mk_shared(lazy: bool, use_i: int):
    """shared keys: with lazy=True the JWK view is not materialised yet (created from the native key only)"""
    use = [None, "sig", "enc"][use_i]
    params = {"use": use} if use else None
    logs = []

    def wrap(key):
        if not key._dict_value:
            log = []
            key._dict_value = RecDict(log=log)
            logs.append(log)
        return key
    if lazy:
        oct_ = wrap(OctKey(bytes(range(32)), bytes(range(32)), params))
        oct16 = wrap(OctKey(bytes(range(16)), bytes(range(16)), params))
        rsa = wrap(RSAKey(ice.FakeRSAPrivate("rsa"), ice.FakeRSAPrivate("rsa"), params))
        ec = wrap(ECKey(ice.FakeECPrivate("ec", "P-256"), ice.FakeECPrivate("ec", "P-256"), params))
    else:
        oct_ = ice.fake_key("oct32", kid="o1", params=params)
        oct16 = ice.fake_key("oct16", kid="o2", params=params)
        rsa = ice.fake_key("RSA", kid="r1", private=True, params=params)
        ec = ice.fake_key("P-256", kid="e1", private=True, params=params)
    return [oct_, oct16, rsa, ec], logs


OPS = ["jws_sign_compact", "jws_verify_compact", "jws_sign_json", "jws_verify_json", "jwe_encrypt_compact", "jwe_decrypt_compact",
       "jwe_encrypt_json", "jwe_decrypt_json", "jwt_encode", "jwt_decode", "key_export", "keyset_lookup"]
JWS_ALG = [("HS256", 0), ("RS256", 2), ("ES256", 3)]
JWE_ALG = [("dir", 1, "A128GCM"), ("A128KW", 1, "A128CBC-HS256"), ("RSA-OAEP", 2, "A128GCM"), ("ECDH-ES+A128KW", 3, "A128GCM"), ("PBES2-HS256+A128KW", 0, "A128GCM"),
           ("A128GCMKW", 1, "A128GCM")]


def do_op(op, keys, ks, a_i, payload, kid, allow_listed, v0, v1, regs=None):
    """one call of operation kind `op` on the shared objects; every call gets its own header / claims objects"""
    alg, ki = JWS_ALG[a_i % 3]
    jalg, jki, jenc = JWE_ALG[a_i % 6]
    hdr = {"alg": alg}
    if kid is not None:
        hdr["kid"] = kid
    jhdr = {"alg": jalg, "enc": jenc}
    env = ice.Env(True, [v0, v1, v1])
    env.ecdsa_rs = (5, 7)
    env.bind_b64(b"HDRSEG", b"HDRJSON")
    env.bind_json(b"HDRJSON", lambda: ice.jcopy(hdr))
    env.bind_b64(b"PAYSEG", b"payload")
    env.bind_json(b"payload", lambda: {"sub": "x"})
    env.bind_b64(b"SIGSEG", bytes({"HS256": 32}.get(alg, 64)))
    full = C16.base_header(C16.ALGS.index(jalg))
    full["enc"] = jenc
    env.bind_b64(b"PROTSEG", b"PROTJSON")
    env.bind_json(b"PROTJSON", lambda: ice.jcopy(full))
    for seg, v in ((b"EKSEG", bytes(24)), (b"IVSEG", bytes(16 if "CBC" in jenc else 12)), (b"CTSEG", b"ct"), (b"TAGSEG", bytes(16)), (b"KWIV", bytes(12)),
                   (b"KWTAG", bytes(16)), (b"P2S", b"salt-input"), (b"EPKX", bytes(32)), (b"EPKY", bytes(32))):
        env.bind_b64(seg, v)
    env.ceks = [bytes(32 if "CBC" in jenc else 16)] * 2
    algs = [alg] if allow_listed else None
    jalgs = [jalg, jenc]
    # registries: per-call allow-lists, or caller-made registry objects SHARED by all calls (regs)
    kw = {"registry": regs[0]} if regs else {"algorithms": [alg]}
    jkw = {"registry": regs[1]} if regs else {"algorithms": jalgs}
    key, jkey = keys[ki], keys[jki]
    with env.installed(patches() + [(random, "choice", lambda s: s[0])]):
        try:
            if op == 0:
                return jws.serialize_compact(hdr, payload, key, **kw)
            if op == 1:
                return jws.deserialize_compact(b"HDRSEG.PAYSEG.SIGSEG", key, **kw).payload
            if op == 2:
                return jws.serialize_json({"protected": hdr}, payload, key, **kw)
            if op == 3:
                return jws.deserialize_json({"payload": "PAYSEG", "protected": "HDRSEG", "signature": "SIGSEG"}, key, **kw).payload
            if op == 4:
                return jwe.encrypt_compact(jhdr, payload, jkey, **jkw)
            if op == 5:
                ek = b"" if jalg == "dir" else b"EKSEG"
                return jwe.decrypt_compact(b"PROTSEG." + ek + b".IVSEG.CTSEG.TAGSEG", jkey, **jkw).plaintext
            if op == 6:
                o = jwe.FlattenedJSONEncryption({"enc": jenc}, payload)
                o.add_recipient({"alg": jalg}, jkey)
                return jwe.encrypt_json(o, None, **jkw)
            if op == 7:
                v = {"protected": "PROTSEG", "iv": "IVSEG", "ciphertext": "CTSEG", "tag": "TAGSEG"}
                if jalg != "dir":
                    v["encrypted_key"] = "EKSEG"
                return jwe.decrypt_json(v, jkey, **jkw).plaintext
            if op == 8:
                return jwt.encode(hdr, {"sub": "x"}, key, **kw)
            if op == 9:
                return jwt.decode(b"HDRSEG.PAYSEG.SIGSEG", key, **kw).claims
            if op == 10:
                k = keys[a_i % 4]
                # (the lazily assigned thumbprint kid is the documented exception: results are compared without it)
                r = [{a: b for a, b in k.as_dict(private=False).items() if a != "kid"}, k.thumbprint()]
                k.ensure_kid()
                return r + [k.kid]
            for k in ks.keys:
                k.ensure_kid()
            r = ks.get_by_kid(ks.keys[a_i % len(ks.keys)].kid)
            return [r.kid, ks.pick_random_key(alg).kid]
        except ice.HarnessError:
            raise
        except Exception as e:  # noqa
            return ("raised", type(e).__name__)


def mk_regs():
    """registry objects a caller builds once and shares between calls"""
    return (JWSRegistry(algorithms=[a for a, _ in JWS_ALG]), JWERegistry(algorithms=[a for a, _, _ in JWE_ALG] + ["A128GCM", "A128CBC-HS256"]))


def frame(op: int, a_i: int, lazy: bool, use_i: int, payload: bytes, has_kid: bool, kid: str, allow_listed: bool, v0: bool, v1: bool) -> bool:
    """
    PRE: 0 <= op < 12 and 0 <= a_i <= 5 and 0 <= use_i <= 2 and len(payload) <= 1 and len(kid) <= 1
    POST: _
    """
    rt.tick()
    keys, logs = mk_shared(lazy, use_i)
    ks = KeySet.__new__(KeySet)
    ks.keys = list(keys)
    regs = mk_regs() if allow_listed else None
    objs = regs or ()
    before = shared_state(keys, [ks], objs)
    r1 = do_op(op, keys, ks, a_i, payload, kid if has_kid else None, allow_listed, v0, v1, regs)
    mid = shared_state(keys, [ks], objs)
    d1 = diff(before, mid, keys)
    if d1:
        return False
    # the lazy views were published complete: after publication only "kid" is written in place
    for log in logs:
        if any(k != "kid" for (w, k) in log):
            return False
    # idempotence: running again neither changes shared state nor the lazy views
    r2 = do_op(op, keys, ks, a_i, payload, kid if has_kid else None, allow_listed, v0, v1, regs)
    after = shared_state(keys, [ks], objs)
    for k in after:
        if mid.get(k) != after.get(k):
            return False
    return True


QUICK = os.environ.get("VERIF_TIER") != "thorough"


def two_ops(op1: int, op2: int, a1: int, a2: int, lazy: bool, use_i: int, v0: bool, v1: bool) -> bool:
    """
    PRE: 0 <= op1 < 12 and 0 <= op2 < 12 and 0 <= a1 <= 5 and 0 <= a2 <= 5 and 0 <= use_i <= 2
    PRE: not QUICK or (a1 == a2 and use_i == 0 and v0 == v1 and op2 in (1, 5, 9, 10))
    POST: _
    """
    rt.tick()
    # outcome of op2 after op1 on shared objects == outcome of op2 in isolation (fresh objects)
    keys, _ = mk_shared(lazy, use_i)
    ks = KeySet.__new__(KeySet)
    ks.keys = list(keys)
    regs = mk_regs()
    do_op(op1, keys, ks, a1, b"p", None, False, v0, v1, regs)
    after = do_op(op2, keys, ks, a2, b"q", None, False, v0, v1, regs)
    keys2, _ = mk_shared(lazy, use_i)
    ks2 = KeySet.__new__(KeySet)
    ks2.keys = list(keys2)
    alone = do_op(op2, keys2, ks2, a2, b"q", None, False, v0, v1, mk_regs())
    return norm(after) == norm(alone)


def norm(r):
    if isinstance(r, (str, bytes, tuple)) or r is None:
        return r
    return repr(r)


def witness(op: int, a_i: int, lazy: bool, use_i: int, v0: bool, v1: bool) -> bool:
    """
    pre: 0 <= op < 12 and 0 <= a_i <= 5 and 0 <= use_i <= 2
    post: _
    """
    keys, _ = mk_shared(lazy, use_i)
    ks = KeySet.__new__(KeySet)
    ks.keys = list(keys)
    r = do_op(op, keys, ks, a_i, b"p", None, False, v0, v1)
    return isinstance(r, tuple) and r and r[0] == "raised" or not (op == 5 and a_i == 4)


# ------------------------------------------------------------------ replay on real objects: histories and one-preemption schedules
def real_registry_histories():
    """sequential histories on shared registries (a caller-made instance and the module default) and on a shared key set"""
    R, J = _real_world()
    out = []
    kw16 = JWKRegistry.import_key(dict(J["oct16"]))
    first = [("ECDH-ES+A128KW", JWKRegistry.import_key(R.public_jwk(J["EC"])), {"apu": "QWxpY2U"}),
             ("A128GCMKW", kw16, {"iv": "AAAAAAAAAAAAAAAA", "tag": "AAAAAAAAAAAAAAAAAAAAAA"}),
             ("PBES2-HS256+A128KW", JWKRegistry.import_key(dict(J["oct32"])), {"p2c": 1000, "p2s": "c2FsdHNhbHQ"})]

    def enc(reg, hdr, key, **kw):
        try:
            jwe.encrypt_compact(dict(hdr), b"x", key, registry=reg, **kw)
            return "returned"
        except Exception as e:  # noqa
            return type(e).__name__
    for alg1, key1, foreign in first:
        for name, val_ in foreign.items():
            hdr2 = {"alg": "A128KW", "enc": "A128GCM", name: val_}
            for label, mk in (("a caller-made JWERegistry", lambda: JWERegistry(algorithms=[alg1, "A128KW", "A128GCM"])), ("the default registry", lambda: None)):
                if mk() is None and alg1 != "ECDH-ES+A128KW":
                    continue                                     # (only recommended algorithms work with the default registry)
                alone = enc(mk(), hdr2, kw16)
                reg = mk()
                r1 = enc(reg, {"alg": alg1, "enc": "A128GCM"}, key1)
                after = enc(reg, hdr2, kw16)
                if after != alone:
                    out.append("%s: encrypt with alg=A128KW and header member %r %s in isolation but %s after a %s call (%s) on the same registry"
                               % (label, name, alone, after, alg1, r1))
    # a shared key set after calls that pick a key from it
    from joserfc.jwk import KeySet as _KS
    mk_set = lambda: _KS([JWKRegistry.import_key(dict(J["oct32"], kid="dup")), JWKRegistry.import_key(dict(J["EC"], kid="dup")),
                          JWKRegistry.import_key(dict(J["RSA"], kid="rsa"))])
    tok = jws.serialize_compact({"alg": "HS256", "kid": "dup"}, b"m", JWKRegistry.import_key(dict(J["oct32"], kid="dup")), algorithms=["HS256"])

    def ver(ks):
        try:
            return jws.deserialize_compact(tok, ks, algorithms=["HS256"]).payload
        except Exception as e:  # noqa
            return type(e).__name__
    alone = ver(mk_set())
    ks = mk_set()
    order0 = [(k.key_type, k.kid) for k in ks.keys]
    res = set()
    for i in range(12):
        jws.serialize_compact({"alg": "ES256"}, b"p%d" % i, ks, algorithms=["ES256"])
        jws.serialize_compact({"alg": "RS256"}, b"p%d" % i, ks, algorithms=["RS256"])
        res.add(ver(ks))
    if res != {alone}:
        out.append("shared key set: verifying an HS256 token gave %r after signing calls that picked keys from the set; with a fresh identical set: %r" % (sorted(map(str, res)), alone))
    if [(k.key_type, k.kid) for k in ks.keys] != order0:
        out.append("shared key set: the order of its keys (what as_dict() and lookups observe) changed from %r to %r after signing calls without kid" % (order0, [(k.key_type, k.kid) for k in ks.keys]))
    return out


def real_call_preemptions():
    """one-preemption schedules over WHOLE calls: thread A runs a call and is suspended at each line boundary inside joserfc; thread B then
    runs another call (other allow-list / other token) to completion; both verdicts must equal the isolated ones"""
    import threading
    R, J = _real_world()
    out = []
    k32 = JWKRegistry.import_key(dict(J["oct32"]))
    k64 = JWKRegistry.import_key({"kty": "oct", "k": R.b64e(bytes(range(64)))})
    t256 = jws.serialize_compact({"alg": "HS256"}, b"a", k32, algorithms=["HS256"])
    t384 = jws.serialize_compact({"alg": "HS384"}, b"b", k64, algorithms=["HS384"])
    kw = JWKRegistry.import_key(dict(J["oct16"]))
    e_kw = jwe.encrypt_compact({"alg": "A128KW", "enc": "A128GCM"}, b"c", kw, algorithms=["A128KW", "A128GCM"])
    e_gk = jwe.encrypt_compact({"alg": "A128GCMKW", "enc": "A128GCM"}, b"d", kw, algorithms=["A128GCMKW", "A128GCM"])

    def call(fn, *a, **k):
        def run():
            try:
                r = fn(*a, **k)
                return getattr(r, "payload", getattr(r, "plaintext", "returned"))
            except Exception as e:  # noqa
                return type(e).__name__
        return run
    pairs = [("JWS verify allowing HS384 / HS384 token", call(jws.deserialize_compact, t384, k64, algorithms=["HS384"]),
              "JWS verify allowing only HS256 / HS256 token", call(jws.deserialize_compact, t256, k32, algorithms=["HS256"])),
             ("JWS verify allowing only HS256 / HS384 token", call(jws.deserialize_compact, t384, k64, algorithms=["HS256"]),
              "JWS verify allowing HS384 / HS384 token", call(jws.deserialize_compact, t384, k64, algorithms=["HS384"])),
             ("JWE decrypt allowing A128GCMKW", call(jwe.decrypt_compact, e_gk, kw, algorithms=["A128GCMKW", "A128GCM"]),
              "JWE decrypt allowing A128KW", call(jwe.decrypt_compact, e_kw, kw, algorithms=["A128KW", "A128GCM"])),
             ("JWE decrypt of an A128GCMKW token allowing only A128KW", call(jwe.decrypt_compact, e_gk, kw, algorithms=["A128KW", "A128GCM"]),
              "JWE decrypt allowing A128GCMKW", call(jwe.decrypt_compact, e_gk, kw, algorithms=["A128GCMKW", "A128GCM"]))]
    for la, fa, lb, fb in pairs:
        alone_a, alone_b = fa(), fb()
        for stop_at in range(1, 400):
            state = {"n": 0, "fired": False, "b": None, "a": None}

            def tracer(frame, event, arg):
                if event == "line" and "/joserfc/" in frame.f_code.co_filename:
                    state["n"] += 1
                    if state["n"] == stop_at and not state["fired"]:
                        state["fired"] = True
                        sys.settrace(None)
                        state["b"] = fb()                 # B runs to completion while A is suspended here
                        sys.settrace(tracer)
                return tracer

            def thread_a():
                sys.settrace(tracer)
                try:
                    state["a"] = fa()
                finally:
                    sys.settrace(None)
            t = threading.Thread(target=thread_a)
            t.start()
            t.join()
            if not state["fired"]:
                break
            if state["a"] != alone_a or state["b"] != alone_b:
                out.append("[%s] suspended at line event #%d while [%s] runs: outcomes %r / %r, in isolation %r / %r"
                           % (la, stop_at, lb, state["a"], state["b"], alone_a, alone_b))
                break
    return out


def replay(func, call):
    import warnings
    warnings.simplefilter("ignore")
    probs = real_histories() + real_registry_histories() + real_preemptions() + real_call_preemptions()
    if probs:
        return {"violated": True, "key": "c20-" + func, "detail": "; ".join(probs[:3])}
    return {"violated": None, "detail": "shared state is written (%s %s) but no scripted history or one-preemption schedule changes an outcome" % (func, call)}


def _real_world():
    from vlib import refjose as R
    mk = JWKRegistry.import_key
    return R, {"oct32": dict(R.test_key("oct32")), "oct16": dict(R.test_key("oct16")), "RSA": dict(R.test_key("RSA2048")), "EC": dict(R.test_key("P-256"))}


def real_histories():
    """sequential histories on real keys / real crypto: the same operation with another key of the same kid, right-then-wrong and
    wrong-then-right, for every JWE/JWS family; outcomes must equal the isolated ones"""
    R, J = _real_world()
    out = []
    cases = [("dir", "A128GCM", "oct16"), ("A128KW", "A128CBC-HS256", "oct16"), ("A128GCMKW", "A128GCM", "oct16"), ("PBES2-HS256+A128KW", "A128GCM", "oct32"),
             ("RSA-OAEP", "A128GCM", "RSA"), ("ECDH-ES+A128KW", "A128GCM", "EC")]
    for alg, enc, kk in cases:
        good = J[kk]
        if kk.startswith("oct"):
            bad = dict(good, k=R.b64e(bytes(reversed(R.b64d(good["k"])))))
        elif kk == "RSA":
            bad = dict(R.test_key("RSA1024"))
        else:
            bad = dict(R._ephemeral("P-256"))
        kg, kb = JWKRegistry.import_key(dict(good, kid="same")), JWKRegistry.import_key(dict(bad, kid="same"))
        pub = JWKRegistry.import_key(dict(R.public_jwk(good) if good["kty"] != "oct" else good, kid="same"))
        tok = jwe.encrypt_compact({"alg": alg, "enc": enc}, b"secret", pub, algorithms=[alg, enc])

        def attempt(k):
            try:
                return jwe.decrypt_compact(tok, k, algorithms=[alg, enc]).plaintext
            except Exception as e:  # noqa
                return "error"
        for order in ((kg, kb), (kb, kg)):
            res = [attempt(order[0]), attempt(order[1])]
            want = [b"secret" if k is kg else "error" for k in order]
            if res != want:
                out.append("%s: decrypting with keys %s (same kid) gave %r, in isolation %r" % (alg, ["right" if k is kg else "wrong" for k in order], res, want))
    for alg, kk in (("HS256", "oct32"), ("RS256", "RSA"), ("ES256", "EC")):
        good = J[kk]
        kg = JWKRegistry.import_key(dict(good, kid="same"))
        other = dict(good, k=R.b64e(b"x" * 32)) if kk == "oct32" else (dict(R.test_key("RSA1024")) if kk == "RSA" else dict(R._ephemeral("P-256")))
        kb = JWKRegistry.import_key(dict(R.public_jwk(other) if other["kty"] != "oct" else other, kid="same"))
        tok = jws.serialize_compact({"alg": alg}, b"msg", kg, algorithms=[alg])
        pubg = JWKRegistry.import_key(dict(R.public_jwk(good) if good["kty"] != "oct" else good, kid="same"))

        def ver(k):
            try:
                return jws.deserialize_compact(tok, k, algorithms=[alg]).payload
            except Exception:  # noqa
                return "error"
        for order in ((pubg, kb), (kb, pubg)):
            res = [ver(order[0]), ver(order[1])]
            want = [b"msg" if k is pubg else "error" for k in order]
            if res != want:
                out.append("%s: verifying with keys %s gave %r, in isolation %r" % (alg, ["right" if k is pubg else "wrong" for k in order], res, want))
    # two parsed tokens held at the same time, validated afterwards
    ka, kb = JWKRegistry.import_key(J["oct32"]), JWKRegistry.import_key(dict(J["oct32"], k=R.b64e(b"y" * 32)))
    t1 = jws.serialize_compact({"alg": "HS256"}, b"first", ka, algorithms=["HS256"])
    t2 = jws.serialize_compact({"alg": "HS256"}, b"second", kb, algorithms=["HS256"])
    o1 = jws.extract_compact(t1.encode())
    o2 = jws.extract_compact(t2.encode())
    try:
        r1, r2 = jws.validate_compact(o1, ka, ["HS256"]), jws.validate_compact(o2, kb, ["HS256"])
    except Exception as e:  # noqa
        r1 = r2 = "error %s" % type(e).__name__
    if r1 is not True or r2 is not True or o1.payload != b"first" or o2.payload != b"second":
        out.append("extract_compact(t1); extract_compact(t2); validate_compact(obj1) -> %r, validate_compact(obj2) -> %r (both valid in isolation)" % (r1, r2))
    return out


def real_preemptions():
    """one-preemption schedules: thread A makes the FIRST use of a shared key created from bytes/native material with
    parameters {'use': ...}; it is paused at every line boundary inside joserfc.rfc7517.models and thread B runs a whole
    operation whose verdict depends on that key's use; B's verdict must equal its verdict in isolation"""
    import threading
    out = []
    R, J = _real_world()

    def mk_oct():
        return OctKey.import_key(R.b64d(J["oct32"]["k"]), {"use": "sig"})

    def mk_ec():
        from cryptography.hazmat.primitives.serialization import Encoding, PrivateFormat, NoEncryption
        pem = R.priv_native(J["EC"]).private_bytes(Encoding.PEM, PrivateFormat.PKCS8, NoEncryption())
        return ECKey.import_key(pem, {"use": "enc"})

    def op_b_oct(key):
        try:
            jwe.encrypt_compact({"alg": "A256KW", "enc": "A128GCM"}, b"x", key, algorithms=["A256KW", "A128GCM"])
            return "returned"
        except Exception as e:  # noqa
            return type(e).__name__

    def op_b_ec(key):
        try:
            jws.serialize_compact({"alg": "ES256"}, b"x", key, algorithms=["ES256"])
            return "returned"
        except Exception as e:  # noqa
            return type(e).__name__
    for mk, op_b, label in ((mk_oct, op_b_oct, "oct key use=sig / A256KW encrypt"), (mk_ec, op_b_ec, "EC key use=enc / ES256 sign")):
        alone = op_b(mk())
        # count line events of A's first use
        for stop_at in range(1, 80):
            key = mk()
            state = {"n": 0, "done": False, "res": None, "fired": False}

            def tracer(frame, event, arg):
                if event == "line" and frame.f_code.co_filename.endswith("rfc7517/models.py"):
                    state["n"] += 1
                    if state["n"] == stop_at and not state["fired"]:
                        state["fired"] = True
                        sys.settrace(None)
                        state["res"] = op_b(key)          # B runs to completion while A is suspended here
                        sys.settrace(tracer)
                return tracer

            def thread_a():
                sys.settrace(tracer)
                try:
                    key.dict_value
                    key.check_use("sig")
                except Exception:  # noqa
                    pass
                finally:
                    sys.settrace(None)
            t = threading.Thread(target=thread_a)
            t.start()
            t.join()
            if not state["fired"]:
                break
            if state["res"] != alone:
                out.append("%s: when another thread is preempted at line event #%d of the key's first use, the call %s; in isolation it %s"
                           % (label, stop_at, state["res"], alone))
                break
    return out
