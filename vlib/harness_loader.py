import os
from vlib import e1worker


def load(name):
    return e1worker.load(os.path.join(os.path.dirname(os.path.abspath(__file__)), "harness", name))
