"""ice: the stubbed leaf environment for engine E1 (CrossHair on the real joserfc glue).

Only LEAVES are replaced (stdlib C modules, pyca/cryptography objects, PyCryptodome); every joserfc function runs for real.
Two modes:  adversarial (verification/decryption primitives answer with solver-chosen verdicts; everything they are asked is
recorded) and ideal (primitives are Dolev-Yao style tables: verify succeeds iff the same key/message/parameters were signed,
decrypt(encrypt(x)) = x iff all operands are identical).

Opaque codecs: base64 and JSON texts are tokens.  b64decode(token) -> the value the scenario bound to it; json.loads(text)
-> a FRESH COPY of the object the scenario bound to it.  Unknown tokens raise the codec's documented error.
"""
from __future__ import annotations
import base64, binascii, json, hmac, hashlib, secrets, zlib, sys, copy, contextlib
from unittest import mock

CUR = None          # the active Env (fake native keys record into it)


class HarnessError(Exception):
    """Raised when a harness runs out of scripted answers: a defect of the harness, never of joserfc."""


def jcopy(o):
    if isinstance(o, dict):
        return {k: jcopy(v) for k, v in o.items()}
    if isinstance(o, list):
        return [jcopy(v) for v in o]
    return o


class Opaque:
    """An opaque octet string produced by a stubbed primitive (signature, MAC, derived key...). Supports the few bytes
    operations the glue applies to such values (slicing = truncation, concatenation) symbolically."""
    def __init__(self, kind, *parts, cut=None):
        self.kind, self.parts, self.cut = kind, parts, cut

    def __eq__(self, o):
        return isinstance(o, Opaque) and self.kind == o.kind and self.parts == o.parts and self.cut == o.cut

    def __hash__(self):
        return hash((self.kind, self.cut))

    def __getitem__(self, s):
        if isinstance(s, slice):
            return Opaque(self.kind, *self.parts, cut=(self.cut, s.start, s.stop))
        raise TypeError("opaque octets cannot be indexed")

    def __add__(self, o):
        if isinstance(o, bytes) and o == b"":
            return self
        return Opaque("cat", self, o)

    def __radd__(self, o):
        if isinstance(o, bytes) and o == b"":
            return self
        return Opaque("cat", o, self)

    def __len__(self):
        raise TypeError("length of opaque octets is not known to the glue")

    def __repr__(self):
        return "Opaque(%s%s)" % (self.kind, "" if self.cut is None else ",cut")


class Env:
    def __init__(self, adversarial=True, verdicts=()):
        self.adv = adversarial
        self.verdicts = list(verdicts)
        self.vi = 0
        self.b64 = {}
        self.b64_made = []
        self.js = {}
        self.js_made = []
        self.calls = []
        self.draws = []
        self.signed = []     # ideal mode: (kind, key id, params, msg) -> signature
        self.dumps_kwargs = []

    # ---- scripted verdicts
    def verdict(self):
        if self.vi >= len(self.verdicts):
            raise HarnessError("not enough scripted verdicts")
        v = self.verdicts[self.vi]
        self.vi += 1
        return v

    def rec(self, kind, **kw):
        kw["kind"] = kind
        self.calls.append(kw)
        return kw

    def of(self, kind):
        return [c for c in self.calls if c["kind"] == kind]

    # ---- base64 (opaque bijection)
    def bind_b64(self, token: bytes, value):
        self.b64[token] = value

    def urlsafe_b64encode(self, v):
        for val, tok in self.b64_made:
            if type(val) is type(v) and val == v:
                return tok
        for tok, val in self.b64.items():
            if not isinstance(val, BaseException) and type(val) is type(v) and val == v:
                return tok
        tok = b"E%d" % len(self.b64_made)
        self.b64_made.append((v, tok))
        return tok

    def b64decode(self, s, altchars=None, validate=False):
        key = bytes(s).rstrip(b"=")
        if key in self.b64:
            v = self.b64[key]
            if isinstance(v, BaseException):
                raise v
            return v
        for val, tok in self.b64_made:
            if tok == key:
                return val
        if key == b"":
            return b""
        raise binascii.Error("Only base64 data is allowed")

    # ---- json (opaque)
    def bind_json(self, text, factory):
        self.js[text] = factory

    def dumps(self, obj, **kw):
        self.dumps_kwargs.append(kw)
        for val, tok in self.js_made:
            if val == obj:
                return tok
        tok = "J%d" % len(self.js_made)
        self.js_made.append((jcopy(obj), tok))
        return tok

    def loads(self, s, **kw):
        k = s.encode() if isinstance(s, str) else s
        if not isinstance(k, bytes):
            raise TypeError("the JSON object must be str, bytes or bytearray")
        if k in self.js:
            f = self.js[k]
            if isinstance(f, BaseException):
                raise f
            return f()
        for val, tok in self.js_made:
            if tok.encode() == k:
                return jcopy(val)
        raise json.JSONDecodeError("Expecting value", "x", 0)

    # ---- hmac
    def hmac_new(self, key, msg=None, digestmod=None):
        if not isinstance(key, (bytes, bytearray)):
            raise TypeError("key: expected bytes or bytearray, but got %r" % type(key).__name__)
        name = digestmod if isinstance(digestmod, str) else getattr(digestmod, "__name__", str(digestmod))
        name = name.replace("openssl_", "")
        self.rec("hmac", key=key, msg=msg, hash=name)
        return _Mac(Opaque("mac", name, key, msg))

    def compare_digest(self, a, b):
        r = self.rec("compare", a=a, b=b)
        if self.adv:
            r["verdict"] = self.verdict()
        else:
            r["verdict"] = (type(a) is type(b)) and a == b
        return r["verdict"]

    # ---- randomness
    def token_bytes(self, n=32):
        i = len(self.draws)
        v = bytes([65 + i]) * n if isinstance(n, int) and n >= 0 else None
        if v is None:
            raise ValueError("negative argument not allowed")
        self.draws.append({"n": n, "value": v, "source": "secrets"})
        return v

    # ---- installation
    @contextlib.contextmanager
    def installed(self, extra=()):
        global CUR
        prev = CUR
        CUR = self
        with contextlib.ExitStack() as st:
            st.enter_context(mock.patch.object(base64, "urlsafe_b64encode", self.urlsafe_b64encode))
            st.enter_context(mock.patch.object(base64, "b64decode", self.b64decode))
            st.enter_context(mock.patch.object(json, "dumps", self.dumps))
            st.enter_context(mock.patch.object(json, "loads", self.loads))
            st.enter_context(mock.patch.object(hmac, "new", self.hmac_new))
            st.enter_context(mock.patch.object(hmac, "compare_digest", self.compare_digest))
            st.enter_context(mock.patch.object(secrets, "token_bytes", self.token_bytes))
            for p in extra:
                st.enter_context(p)
            try:
                yield self
            finally:
                CUR = prev


class _Mac:
    def __init__(self, tag):
        self.tag = tag

    def digest(self):
        return self.tag


def patch_joserfc_names(mapping):
    """mock.patch objects replacing, in every loaded joserfc module, each attribute NAME bound to the pyca object ORIG by FAKE.
    mapping: {name: (orig, fake)}.  (pyca names are bound by `from ... import`, so they are patched per namespace; a moved
    import is still found because all joserfc modules are scanned.)"""
    out = []
    for mname, mod in list(sys.modules.items()):
        if not mname.startswith("joserfc") or mod is None:
            continue
        for name, (orig, fake) in mapping.items():
            if getattr(mod, name, None) is orig:
                out.append(mock.patch.object(mod, name, fake))
    return out


# ------------------------------------------------------------------ fake native keys (subclasses of pyca's ABCs)
from cryptography.hazmat.primitives.asymmetric import rsa as _rsa, ec as _ec, ed25519 as _ed25519, ed448 as _ed448, \
    x25519 as _x25519, x448 as _x448, padding as _padding
from cryptography.hazmat.primitives import hashes as _hashes
from cryptography.exceptions import InvalidSignature


def _describe_padding(p):
    if isinstance(p, _padding.PKCS1v15):
        return ("PKCS1v15",)
    if isinstance(p, _padding.PSS):
        return ("PSS", type(p._mgf).__name__, p._mgf._algorithm.name, p._salt_length)
    if isinstance(p, _padding.OAEP):
        return ("OAEP", p._mgf._algorithm.name, p._algorithm.name, p._label)
    return (type(p).__name__,)


class _FakeBase:
    def __eq__(self, o):
        return self is o

    __hash__ = object.__hash__

    def __copy__(self):
        return self

    def __deepcopy__(self, memo):
        return self


def _verify(kind, keyid, params, sig, msg):
    env = CUR
    r = env.rec("verify", family=kind, key=keyid, params=params, sig=sig, msg=msg)
    if env.adv:
        r["verdict"] = env.verdict()
    else:
        r["verdict"] = any(s == (kind, keyid, params, msg, sig) for s in env.signed)
    if not r["verdict"]:
        raise InvalidSignature()


def _sign(kind, keyid, params, msg):
    env = CUR
    sig = Opaque("sig", kind, keyid, params, msg)
    env.rec("sign", family=kind, key=keyid, params=params, msg=msg, sig=sig)
    env.signed.append((kind, keyid, params, msg, sig))
    return sig


class FakeRSAPublic(_FakeBase, _rsa.RSAPublicKey):
    def __init__(self, kid="rsa", bits=2048):
        self.kid, self._bits = kid, bits

    key_size = property(lambda self: self._bits)

    def verify(self, signature, data, padding, algorithm):
        _verify("RSA", self.kid, (_describe_padding(padding), algorithm.name), signature, data)

    def encrypt(self, plaintext, padding):
        ek = Opaque("rsaenc", self.kid, _describe_padding(padding), plaintext)
        CUR.rec("rsa_encrypt", key=self.kid, padding=_describe_padding(padding), pt=plaintext, out=ek)
        return ek

    def public_numbers(self):
        CUR.rec("public_numbers", key=self.kid)
        return _rsa.RSAPublicNumbers(65537, (1 << 2047) + 12345)

    def public_bytes(self, encoding, format):
        return b"PUB-" + self.kid.encode()

    def recover_data_from_signature(self, *a):
        raise NotImplementedError


class FakeRSAPrivate(_FakeBase, _rsa.RSAPrivateKey):
    def __init__(self, kid="rsa", bits=2048):
        self.kid, self._bits = kid, bits
        self._pub = FakeRSAPublic(kid, bits)

    key_size = property(lambda self: self._bits)

    def public_key(self):
        return self._pub

    def sign(self, data, padding, algorithm):
        return _sign("RSA", self.kid, (_describe_padding(padding), algorithm.name), data)

    def decrypt(self, ciphertext, padding):
        env = CUR
        r = env.rec("rsa_decrypt", key=self.kid, padding=_describe_padding(padding), ek=ciphertext)
        if env.adv:
            ok = env.verdict()
            if not ok:
                raise ValueError("Decryption failed")
            r["out"] = env.next_cek()
            return r["out"]
        if isinstance(ciphertext, Opaque) and ciphertext.kind == "rsaenc" and ciphertext.parts[0] == self.kid \
                and ciphertext.parts[1] == _describe_padding(padding):
            return ciphertext.parts[2]
        raise ValueError("Decryption failed")

    def private_numbers(self):
        CUR.rec("private_numbers", key=self.kid)
        raise NotImplementedError

    def private_bytes(self, *a, **k):
        CUR.rec("private_bytes", key=self.kid)
        return b"PRIV-" + self.kid.encode()


class _Curve:
    def __init__(self, name, key_size):
        self.name, self.key_size = name, key_size


CURVES = {"P-256": _Curve("secp256r1", 256), "P-384": _Curve("secp384r1", 384), "P-521": _Curve("secp521r1", 521),
          "secp256k1": _Curve("secp256k1", 256)}


class FakeECPublic(_FakeBase, _ec.EllipticCurvePublicKey):
    def __init__(self, kid="ec", crv="P-256"):
        self.kid, self.crv = kid, crv

    curve = property(lambda self: CURVES[self.crv])
    key_size = property(lambda self: CURVES[self.crv].key_size)

    def verify(self, signature, data, signature_algorithm):
        _verify("EC", self.kid, ("ECDSA", signature_algorithm.algorithm.name), signature, data)

    def public_numbers(self):
        CUR.rec("public_numbers", key=self.kid)
        return _ec.EllipticCurvePublicNumbers(5, 6, {"P-256": _ec.SECP256R1, "P-384": _ec.SECP384R1, "P-521": _ec.SECP521R1,
                                                     "secp256k1": _ec.SECP256K1}[self.crv]())

    def public_bytes(self, encoding, format):
        return b"PUB-" + self.kid.encode()

    @classmethod
    def from_encoded_point(cls, curve, data):
        raise NotImplementedError


class FakeECPrivate(_FakeBase, _ec.EllipticCurvePrivateKey):
    def __init__(self, kid="ec", crv="P-256"):
        self.kid, self.crv = kid, crv
        self._pub = FakeECPublic(kid, crv)

    curve = property(lambda self: CURVES[self.crv])
    key_size = property(lambda self: CURVES[self.crv].key_size)

    def public_key(self):
        return self._pub

    def sign(self, data, signature_algorithm):
        env = CUR
        # the real primitive returns a DER signature; the harness supplies r,s through env.ecdsa_rs
        r, s = env.ecdsa_rs
        from cryptography.hazmat.primitives.asymmetric.utils import encode_dss_signature
        env.rec("sign", family="EC", key=self.kid, params=("ECDSA", signature_algorithm.algorithm.name), msg=data, rs=(r, s))
        return encode_dss_signature(r, s)

    def exchange(self, algorithm, peer_public_key):
        if not isinstance(peer_public_key, _ec.EllipticCurvePublicKey):
            raise TypeError("peer_public_key must be an EllipticCurvePublicKey")
        if getattr(peer_public_key, "crv", None) != self.crv:
            raise ValueError("curves do not match")
        z = Opaque("ecdh", frozenset([self.kid, peer_public_key.kid]))
        CUR.rec("exchange", priv=self.kid, pub=peer_public_key.kid, out=z)
        return z

    def private_numbers(self):
        CUR.rec("private_numbers", key=self.kid)
        raise NotImplementedError

    def private_bytes(self, *a, **k):
        CUR.rec("private_bytes", key=self.kid)
        return b"PRIV-" + self.kid.encode()


def _okp_pair(pub_abc, priv_abc, family, can_sign):
    class Pub(_FakeBase, pub_abc):
        def __init__(self, kid):
            self.kid = kid

        def public_bytes(self, encoding, format):
            return b"PUB-" + self.kid.encode()

        def public_bytes_raw(self):
            return b"PUB-" + self.kid.encode()

        if can_sign:
            def verify(self, signature, data):
                _verify(family, self.kid, (), signature, data)

    class Priv(_FakeBase, priv_abc):
        def __init__(self, kid):
            self.kid = kid
            self._pub = Pub(kid)

        def public_key(self):
            return self._pub

        def private_bytes(self, *a, **k):
            CUR.rec("private_bytes", key=self.kid)
            return b"PRIV-" + self.kid.encode()

        def private_bytes_raw(self):
            CUR.rec("private_bytes", key=self.kid)
            return b"PRIV-" + self.kid.encode()

        if can_sign:
            def sign(self, data):
                return _sign(family, self.kid, (), data)
        else:
            def exchange(self, peer_public_key):
                if not isinstance(peer_public_key, pub_abc):
                    raise TypeError("wrong peer key type")
                z = Opaque("ecdh", frozenset([self.kid, peer_public_key.kid]))
                CUR.rec("exchange", priv=self.kid, pub=peer_public_key.kid, out=z)
                return z
    Pub.__name__, Priv.__name__ = "Fake%sPublic" % family, "Fake%sPrivate" % family
    return Pub, Priv


FakeEd25519Public, FakeEd25519Private = _okp_pair(_ed25519.Ed25519PublicKey, _ed25519.Ed25519PrivateKey, "Ed25519", True)
FakeEd448Public, FakeEd448Private = _okp_pair(_ed448.Ed448PublicKey, _ed448.Ed448PrivateKey, "Ed448", True)
FakeX25519Public, FakeX25519Private = _okp_pair(_x25519.X25519PublicKey, _x25519.X25519PrivateKey, "X25519", False)
FakeX448Public, FakeX448Private = _okp_pair(_x448.X448PublicKey, _x448.X448PrivateKey, "X448", False)


def fake_key(kind, kid=None, private=False, params=None):
    """A joserfc Key object around a fake native key.  kind: 'oct<N>' | 'RSA' | 'RSA1024' | EC curve | OKP curve."""
    from joserfc.jwk import OctKey, RSAKey, ECKey, OKPKey
    params = dict(params or {})
    name = kid or kind
    if kind.startswith("oct"):
        n = int(kind[3:] or 32)
        raw = bytes((i * 7 + n) % 256 for i in range(n))
        return OctKey(raw, {"kty": "oct", "k": "k-" + name, **({"kid": kid} if kid else {}), **params})
    if kind.startswith("RSA"):
        bits = int(kind[3:] or 2048)
        native = FakeRSAPrivate(name, bits) if private else FakeRSAPublic(name, bits)
        d = {"kty": "RSA", "n": "n-" + name, "e": "AQAB"}
        if private:
            d["d"] = "d-" + name
        return RSAKey(native, {**d, **({"kid": kid} if kid else {}), **params})
    if kind in CURVES:
        native = FakeECPrivate(name, kind) if private else FakeECPublic(name, kind)
        d = {"kty": "EC", "crv": kind, "x": "x-" + name, "y": "y-" + name}
        if private:
            d["d"] = "d-" + name
        return ECKey(native, {**d, **({"kid": kid} if kid else {}), **params})
    cls = {"Ed25519": (FakeEd25519Public, FakeEd25519Private), "Ed448": (FakeEd448Public, FakeEd448Private),
           "X25519": (FakeX25519Public, FakeX25519Private), "X448": (FakeX448Public, FakeX448Private)}[kind]
    native = cls[1](name) if private else cls[0](name)
    d = {"kty": "OKP", "crv": kind, "x": "x-" + name}
    if private:
        d["d"] = "d-" + name
    return OKPKey(native, {**d, **({"kid": kid} if kid else {}), **params})
