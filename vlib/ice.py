"""ice: the stubbed leaf environment for engine E1 (CrossHair on the real joserfc glue).

Only LEAVES are replaced (stdlib C modules, pyca/cryptography objects, PyCryptodome); every joserfc function runs for real.
Two modes:  adversarial (verification/decryption primitives answer with solver-chosen verdicts; everything they are asked is
recorded) and ideal (primitives are Dolev-Yao style tables: verify succeeds iff the same key/message/parameters were signed,
decrypt(encrypt(x)) = x iff all operands are identical).

Opaque codecs: base64 and JSON texts are tokens.  b64decode(token) -> the value the scenario bound to it; json.loads(text)
-> a FRESH COPY of the object the scenario bound to it.  Unknown tokens raise the codec's documented error.
"""
from __future__ import annotations
import base64, binascii, json, hmac, hashlib, secrets, zlib, sys, copy, contextlib, os, collections
from unittest import mock

CUR = None          # the active Env (fake native keys record into it)
_REAL_DUMPS = json.dumps


try:
    from crosshair.tracers import NoTracing as _NoTracing
except ImportError:  # pragma: no cover
    _NoTracing = contextlib.nullcontext


def stable_token(prefix, v):
    """content-addressed token text for a value made of plain Python values / Opaque objects, else None.  Runs outside
    CrossHair's tracing: with tracing on, repr()/encode() of values that merely passed through symbolic operations is
    modelled symbolically and costs seconds."""
    with _NoTracing():
        if v.__class__ is bytes:
            return prefix + hashlib.sha1(v).hexdigest()[:12]
        if isinstance(v, Opaque):
            f = _fp(v)
            return None if f is None else "O" + hashlib.sha1(f.encode()).hexdigest()[:12]
        if _concrete(v):
            return prefix + hashlib.sha1(_REAL_DUMPS(v, sort_keys=False, default=repr).encode()).hexdigest()[:12]
    return None


def _concrete(v, depth=0):
    """True iff v is a plain Python value (no CrossHair symbolic, no opaque object) -- then its token is content-addressed"""
    c = v.__class__
    if c in (bytes, str, int, bool, type(None), float):
        return True
    if depth > 6:
        return False
    if c in (list, tuple):
        return all(_concrete(x, depth + 1) for x in v)
    if c is dict or c is collections.OrderedDict:
        return all(k.__class__ is str and _concrete(x, depth + 1) for k, x in v.items())
    return False


def _fp(v, depth=0):
    """stable fingerprint text of a value built from plain values and Opaque objects; None if something symbolic is inside"""
    c = v.__class__
    if c in (bytes, str, int, bool, type(None), float):
        return repr(v)
    if depth > 8:
        return None
    if c in (list, tuple, frozenset, set):
        parts = [_fp(x, depth + 1) for x in (sorted(v, key=repr) if c in (frozenset, set) else v)]
        return None if any(p is None for p in parts) else "(" + ",".join(parts) + ")"
    if c is dict or c is collections.OrderedDict:
        parts = [(_fp(k, depth + 1), _fp(x, depth + 1)) for k, x in v.items()]
        return None if any(a is None or b is None for a, b in parts) else "{" + ",".join(a + ":" + b for a, b in parts) + "}"
    if isinstance(v, Opaque):
        inner = _fp((v.kind, v.parts, v.cut, getattr(v, "n", None)), depth + 1)
        return None if inner is None else "O" + inner
    return None


class HarnessError(Exception):
    """Raised when a harness runs out of scripted answers: a defect of the harness, never of joserfc."""


def jcopy(o):
    if isinstance(o, dict):
        return {k: jcopy(v) for k, v in o.items()}
    if isinstance(o, list):
        return [jcopy(v) for v in o]
    return o


class Opaque:
    """An opaque octet string produced by a stubbed primitive (signature, MAC, derived key...). Supports the few bytes
    operations the glue applies to such values (slicing = truncation, concatenation) symbolically."""
    def __init__(self, kind, *parts, cut=None):
        self.kind, self.parts, self.cut = kind, parts, cut

    def __eq__(self, o):
        return isinstance(o, Opaque) and self.kind == o.kind and self.parts == o.parts and self.cut == o.cut

    def __hash__(self):
        return hash((self.kind, self.cut))

    def __getitem__(self, s):
        if isinstance(s, slice):
            return Opaque(self.kind, *self.parts, cut=(self.cut, s.start, s.stop))
        raise TypeError("opaque octets cannot be indexed")

    def __add__(self, o):
        if isinstance(o, bytes) and o == b"":
            return self
        return Opaque("cat", self, o)

    def __radd__(self, o):
        if isinstance(o, bytes) and o == b"":
            return self
        return Opaque("cat", o, self)

    def __len__(self):
        raise TypeError("length of opaque octets is not known to the glue")

    def __bool__(self):
        return True                     # outputs of primitives are never empty

    def __repr__(self):
        return "Opaque(%s%s)" % (self.kind, "" if self.cut is None else ",cut")


class Env:
    def __init__(self, adversarial=True, verdicts=()):
        self.adv = adversarial
        self.verdicts = list(verdicts)
        self.vi = 0
        self.b64 = {}
        self.b64_made = []
        self.js = {}
        self.js_made = []
        self.calls = []
        self.draws = []
        self.signed = []     # ideal mode: (kind, key id, params, msg) -> signature
        self.bytes_table = []
        self.dumps_kwargs = []

    # ---- scripted verdicts
    def verdict(self):
        if self.vi >= len(self.verdicts):
            raise HarnessError("not enough scripted verdicts")
        v = self.verdicts[self.vi]
        self.vi += 1
        return v

    def rec(self, kind, **kw):
        kw["kind"] = kind
        self.calls.append(kw)
        return kw

    def of(self, kind):
        return [c for c in self.calls if c["kind"] == kind]

    # ---- base64 (opaque bijection)
    def bind_b64(self, token: bytes, value):
        self.b64[token] = value

    def urlsafe_b64encode(self, v):
        if not isinstance(v, Opaque) and len(v) == 0:
            return b""                # BASE64URL of the empty octet string is the empty string (an "absent when empty" member depends on it)
        for val, tok in self.b64_made:
            if type(val) is type(v) and val == v:
                return tok
        for tok, val in self.b64.items():
            if not isinstance(val, BaseException) and type(val) is type(v) and val == v:
                return tok
        # content-addressed where possible: the same octets get the same token in every environment (needed when results of
        # different calls are compared, C20)
        st = stable_token("E", v) if (v.__class__ is bytes or isinstance(v, Opaque)) else None
        tok = st.encode() if st is not None else b"E%d" % len(self.b64_made)
        self.b64_made.append((v, tok))
        return tok

    def b64decode(self, s, altchars=None, validate=False):
        key = s.rstrip(b"=")          # (no bytes(): that would realise a symbolic segment)
        # equality scan, not a hash lookup: a symbolic segment then forks once per known token instead of being enumerated
        for tok, v in self.b64.items():
            if key == tok:
                if isinstance(v, BaseException):
                    raise v
                return v
        for val, tok in self.b64_made:
            if tok == key:
                return val
        if key == b"":
            return b""
        raise binascii.Error("Only base64 data is allowed")

    # ---- json (opaque)
    def bind_json(self, text, factory):
        self.js[text] = factory

    def dumps(self, obj, **kw):
        self.dumps_kwargs.append(kw)
        for val, tok in self.js_made:
            if val == obj:
                return tok
        tok = stable_token("J", obj) or "J%d" % len(self.js_made)
        self.js_made.append((jcopy(obj), tok))
        return tok

    def loads(self, s, **kw):
        k = s.encode() if isinstance(s, str) else s
        if not isinstance(k, bytes):
            raise TypeError("the JSON object must be str, bytes or bytearray")
        for tok, f in self.js.items():
            if k == tok:
                if isinstance(f, BaseException):
                    raise f
                return f()
        for val, tok in self.js_made:
            if tok.encode() == k:
                return jcopy(val)
        raise json.JSONDecodeError("Expecting value", "x", 0)

    # ---- hmac
    def hmac_new(self, key, msg=None, digestmod=None):
        if not isinstance(key, (bytes, bytearray, Opaque)):
            raise TypeError("key: expected bytes or bytearray, but got %r" % type(key).__name__)
        name = digestmod if isinstance(digestmod, str) else getattr(digestmod, "__name__", str(digestmod))
        name = name.replace("openssl_", "")
        self.rec("hmac", key=key, msg=msg, hash=name)
        return _Mac(Sized("mac", hashlib.new(name).digest_size, name, key, msg))

    def compare_digest(self, a, b):
        r = self.rec("compare", a=a, b=b)
        try:
            if len(a) != len(b):
                r["verdict"] = False          # documented: operands of different length never compare equal
                return False
        except TypeError:
            pass
        if self.adv:
            r["verdict"] = self.verdict()
        else:
            r["verdict"] = (type(a) is type(b)) and a == b
        return r["verdict"]

    # ---- randomness
    def token_bytes(self, n=32):
        i = len(self.draws)
        v = bytes([65 + i]) * n if isinstance(n, int) and n >= 0 else None
        if v is None:
            raise ValueError("negative argument not allowed")
        self.draws.append({"n": n, "value": v, "source": "secrets"})
        return v

    def urandom(self, n):
        i = len(self.draws)
        v = bytes([97 + (i % 26)]) * n
        self.draws.append({"n": n, "value": v, "source": "os.urandom"})
        return v

    # ---- installation
    @contextlib.contextmanager
    def installed(self, extra=()):
        """extra: list of (object, attribute, replacement) triples (see jwe_patches) or mock.patch objects"""
        global CUR
        prev = CUR
        CUR = self
        triples = [(base64, "urlsafe_b64encode", self.urlsafe_b64encode), (base64, "b64decode", self.b64decode),
                   (json, "dumps", self.dumps), (json, "loads", self.loads), (hmac, "new", self.hmac_new),
                   (hmac, "compare_digest", self.compare_digest), (secrets, "token_bytes", self.token_bytes),
                   (os, "urandom", self.urandom)]
        triples += memo_patches()
        ctxs = []
        for p in extra:
            if isinstance(p, tuple):
                triples.append(p)
            else:
                ctxs.append(p)
        saved = []
        try:
            for obj, attr, new in triples:
                if isinstance(obj, dict):
                    saved.append((obj, attr, obj.get(attr, _MISSING)))
                    obj[attr] = new
                else:
                    saved.append((obj, attr, getattr(obj, attr)))
                    setattr(obj, attr, new)
            with contextlib.ExitStack() as st:
                for p in ctxs:
                    st.enter_context(p)
                yield self
        finally:
            for obj, attr, old in reversed(saved):
                if isinstance(obj, dict):
                    if old is _MISSING:
                        obj.pop(attr, None)
                    else:
                        obj[attr] = old
                else:
                    setattr(obj, attr, old)
            CUR = prev


class PyMemo:
    """model of functools.lru_cache / functools.cache as plain Python: CrossHair turns the C wrapper into a pass-through (so a memoising
    function would look stateless); this keeps its defining behaviour -- equal arguments return THE SAME object again -- visible.
    One table per environment installation, i.e. state lives exactly as long as one modelled history (eviction is not modelled)."""
    def __init__(self, fn):
        self.fn, self.table = fn, []
        self.__wrapped__ = fn

    def __call__(self, *a, **k):
        for (a0, k0, r0) in self.table:
            if len(a0) == len(a) and all(type(x) is type(y) and x == y for x, y in zip(a0, a)) and k0 == k:
                return r0
        r = self.fn(*a, **k)
        self.table.append((a, k, r))
        return r

    def cache_clear(self):
        self.table = []


_MEMO_SITES = None


def memo_patches():
    """(module, attribute, PyMemo) for every functools cache wrapper bound in a joserfc module (none on the pinned tree)"""
    global _MEMO_SITES
    import functools
    if _MEMO_SITES is None:
        sites = []
        for mname, mod in list(sys.modules.items()):
            if mname.startswith("joserfc") and mod is not None:
                for attr, val in list(vars(mod).items()):
                    if isinstance(val, functools._lru_cache_wrapper):
                        sites.append((mod, attr, val.__wrapped__))
        _MEMO_SITES = sites
    return [(mod, attr, PyMemo(fn)) for mod, attr, fn in _MEMO_SITES]


def mac_tag(name, key, msg):
    return Sized("mac", hashlib.new(name).digest_size, name, key, msg)


_MISSING = object()


class _Mac:
    def __init__(self, tag):
        self.tag = tag

    def digest(self):
        return self.tag


def patch_joserfc_names(mapping):
    """mock.patch objects replacing, in every loaded joserfc module, each attribute NAME bound to the pyca object ORIG by FAKE.
    mapping: {name: (orig, fake)}.  (pyca names are bound by `from ... import`, so they are patched per namespace; a moved
    import is still found because all joserfc modules are scanned.)"""
    out = []
    for mname, mod in list(sys.modules.items()):
        if not mname.startswith("joserfc") or mod is None:
            continue
        for attr, val in list(vars(mod).items()):
            for name, (orig, fake) in mapping.items():
                if val is orig:                      # by identity: an aliased or moved import is found as well
                    out.append((mod, attr, fake))
    return out


# ------------------------------------------------------------------ fake native keys (subclasses of pyca's ABCs)
from cryptography.hazmat.primitives.asymmetric import rsa as _rsa, ec as _ec, ed25519 as _ed25519, ed448 as _ed448, \
    x25519 as _x25519, x448 as _x448, padding as _padding
from cryptography.hazmat.primitives import hashes as _hashes
from cryptography.exceptions import InvalidSignature


def _describe_padding(p):
    if isinstance(p, _padding.PKCS1v15):
        return ("PKCS1v15",)
    if isinstance(p, _padding.PSS):
        return ("PSS", type(p._mgf).__name__, p._mgf._algorithm.name, p._salt_length)
    if isinstance(p, _padding.OAEP):
        return ("OAEP", p._mgf._algorithm.name, p._algorithm.name, p._label)
    return (type(p).__name__,)


class _FakeBase:
    def __eq__(self, o):
        return self is o

    __hash__ = object.__hash__

    def __copy__(self):
        return self

    def __deepcopy__(self, memo):
        return self


def _verify(kind, keyid, params, sig, msg):
    env = CUR
    r = env.rec("verify", family=kind, key=keyid, params=params, sig=sig, msg=msg)
    if env.adv:
        r["verdict"] = env.verdict()
    else:
        r["verdict"] = any(s == (kind, keyid, params, msg, sig) for s in env.signed)
    if not r["verdict"]:
        raise InvalidSignature()


def _sign(kind, keyid, params, msg, size=None):
    env = CUR
    sig = Opaque("sig", kind, keyid, params, msg) if size is None else Sized("sig", size, kind, keyid, params, msg)
    env.rec("sign", family=kind, key=keyid, params=params, msg=msg, sig=sig)
    env.signed.append((kind, keyid, params, msg, sig))
    return sig


class FakeRSAPublic(_FakeBase, _rsa.RSAPublicKey):
    def __init__(self, kid="rsa", bits=2048):
        self.kid, self._bits = kid, bits

    key_size = property(lambda self: self._bits)

    def verify(self, signature, data, padding, algorithm):
        # length contract probed on pyca/cryptography 50: PKCS1v15 rejects every signature that is not exactly as long as the
        # modulus; PSS rejects longer ones but converts a SHORTER one to the same integer (so a signature with leading zero
        # octets stripped still verifies) -- for shorter PSS signatures the verdict is therefore the solver's
        k = (self._bits + 7) // 8
        pad = _describe_padding(padding)
        if (pad[0] == "PKCS1v15" and len(signature) != k) or len(signature) > k:
            CUR.rec("verify", family="RSA", key=self.kid, params=(pad, algorithm.name), sig=signature, msg=data, verdict=False)
            raise InvalidSignature()
        _verify("RSA", self.kid, (pad, algorithm.name), signature, data)

    def encrypt(self, plaintext, padding):
        ek = Sized("rsaenc", self._bits // 8, self.kid, _describe_padding(padding), plaintext)
        CUR.rec("rsa_encrypt", key=self.kid, padding=_describe_padding(padding), pt=plaintext, out=ek)
        return ek

    def public_numbers(self):
        CUR.rec("public_numbers", key=self.kid)
        return _rsa.RSAPublicNumbers(65537, (1 << 2047) + 12345)

    def public_bytes(self, encoding, format):
        return b"PUB-" + self.kid.encode()

    def recover_data_from_signature(self, *a):
        raise NotImplementedError


class FakeRSAPrivate(_FakeBase, _rsa.RSAPrivateKey):
    def __init__(self, kid="rsa", bits=2048):
        self.kid, self._bits = kid, bits
        self._pub = FakeRSAPublic(kid, bits)

    key_size = property(lambda self: self._bits)

    def public_key(self):
        return self._pub

    def sign(self, data, padding, algorithm):
        return _sign("RSA", self.kid, (_describe_padding(padding), algorithm.name), data, size=(self._bits + 7) // 8)

    def decrypt(self, ciphertext, padding):
        env = CUR
        r = env.rec("rsa_decrypt", key=self.kid, padding=_describe_padding(padding), ek=ciphertext)
        if env.adv:
            ok = env.verdict()
            if not ok:
                raise ValueError("Decryption failed")
            r["out"] = env.next_cek()
            return r["out"]
        if isinstance(ciphertext, Opaque) and ciphertext.kind == "rsaenc" and ciphertext.cut is None and ciphertext.parts[0] == self.kid \
                and ciphertext.parts[1] == _describe_padding(padding):
            return ciphertext.parts[2]
        raise ValueError("Decryption failed")

    def private_numbers(self):
        CUR.rec("private_numbers", key=self.kid)
        import types as _t
        return _t.SimpleNamespace(d=secret_int(self.kid, "d"), p=secret_int(self.kid, "p"), q=secret_int(self.kid, "q"),
                                  dmp1=secret_int(self.kid, "dp"), dmq1=secret_int(self.kid, "dq"), iqmp=secret_int(self.kid, "qi"),
                                  public_numbers=self._pub.public_numbers())

    def private_bytes(self, *a, **k):
        CUR.rec("private_bytes", key=self.kid)
        return b"PRIV-" + self.kid.encode()


class _Curve:
    def __init__(self, name, key_size):
        self.name, self.key_size = name, key_size


CURVES = {"P-256": _Curve("secp256r1", 256), "P-384": _Curve("secp384r1", 384), "P-521": _Curve("secp521r1", 521),
          "secp256k1": _Curve("secp256k1", 256)}


POINTS = {}


def point_of(kid, crv):
    """public coordinates of a fake EC key: a function of its identity, registered so that importing the exported JWK yields a
    public key with the same identity"""
    bits = CURVES[crv].key_size
    x = int.from_bytes(hashlib.sha256(("x:%s:%s" % (kid, crv)).encode()).digest() * 3, "big") % (1 << (bits - 9))
    y = int.from_bytes(hashlib.sha256(("y:%s:%s" % (kid, crv)).encode()).digest() * 3, "big") % (1 << (bits - 1))
    POINTS[(x, y, crv)] = kid
    return x, y


class FakeECPublic(_FakeBase, _ec.EllipticCurvePublicKey):
    def __init__(self, kid="ec", crv="P-256"):
        self.kid, self.crv = kid, crv

    curve = property(lambda self: CURVES[self.crv])
    key_size = property(lambda self: CURVES[self.crv].key_size)

    def verify(self, signature, data, signature_algorithm):
        _verify("EC", self.kid, ("ECDSA", signature_algorithm.algorithm.name), signature, data)

    def public_numbers(self):
        CUR.rec("public_numbers", key=self.kid)
        x, y = point_of(self.kid, self.crv)
        return _ec.EllipticCurvePublicNumbers(x, y, {"P-256": _ec.SECP256R1, "P-384": _ec.SECP384R1, "P-521": _ec.SECP521R1,
                                                     "secp256k1": _ec.SECP256K1}[self.crv]())

    def public_bytes(self, encoding, format):
        return b"PUB-" + self.kid.encode()

    @classmethod
    def from_encoded_point(cls, curve, data):
        raise NotImplementedError


class FakeECPrivate(_FakeBase, _ec.EllipticCurvePrivateKey):
    def __init__(self, kid="ec", crv="P-256"):
        self.kid, self.crv = kid, crv
        self._pub = FakeECPublic(kid, crv)

    curve = property(lambda self: CURVES[self.crv])
    key_size = property(lambda self: CURVES[self.crv].key_size)

    def public_key(self):
        return self._pub

    def sign(self, data, signature_algorithm):
        env = CUR
        # the real primitive returns a DER signature; the harness supplies r,s through env.ecdsa_rs
        r, s = env.ecdsa_rs
        from cryptography.hazmat.primitives.asymmetric.utils import encode_dss_signature
        der = encode_dss_signature(r, s)
        params = ("ECDSA", signature_algorithm.algorithm.name)
        env.rec("sign", family="EC", key=self.kid, params=params, msg=data, rs=(r, s), sig=der)
        env.signed.append(("EC", self.kid, params, data, der))
        return der

    def exchange(self, algorithm, peer_public_key):
        if not isinstance(peer_public_key, _ec.EllipticCurvePublicKey):
            raise TypeError("peer_public_key must be an EllipticCurvePublicKey")
        if getattr(peer_public_key, "crv", None) != self.crv:
            raise ValueError("curves do not match")
        z = Opaque("ecdh", frozenset([self.kid, peer_public_key.kid]))
        CUR.rec("exchange", priv=self.kid, pub=peer_public_key.kid, out=z)
        return z

    def private_numbers(self):
        CUR.rec("private_numbers", key=self.kid)
        import types as _t
        return _t.SimpleNamespace(private_value=secret_int(self.kid, "d"), public_numbers=self._pub.public_numbers())

    def private_bytes(self, *a, **k):
        CUR.rec("private_bytes", key=self.kid)
        return b"PRIV-" + self.kid.encode()


def secret_int(kid, member):
    """distinctive private integer of a fake key (so that its octets can be searched for in public outputs)"""
    return int.from_bytes(hashlib.sha256(("secret:%s:%s" % (kid, member)).encode()).digest()[:30], "big") | (1 << 239)


def _okp_pair(pub_abc, priv_abc, family, can_sign):
    class Pub(_FakeBase, pub_abc):
        def __init__(self, kid):
            self.kid = kid

        def public_bytes(self, encoding, format):
            return b"PUB-" + self.kid.encode()

        def public_bytes_raw(self):
            return b"PUB-" + self.kid.encode()

        if can_sign:
            def verify(self, signature, data):
                _verify(family, self.kid, (), signature, data)

    class Priv(_FakeBase, priv_abc):
        def __init__(self, kid):
            self.kid = kid
            self._pub = Pub(kid)

        def public_key(self):
            return self._pub

        def private_bytes(self, *a, **k):
            CUR.rec("private_bytes", key=self.kid)
            return b"PRIV-" + self.kid.encode()

        def private_bytes_raw(self):
            CUR.rec("private_bytes", key=self.kid)
            return b"PRIV-" + self.kid.encode()

        if can_sign:
            def sign(self, data):
                return _sign(family, self.kid, (), data)
        else:
            def exchange(self, peer_public_key):
                if not isinstance(peer_public_key, pub_abc):
                    raise TypeError("wrong peer key type")
                z = Opaque("ecdh", frozenset([self.kid, peer_public_key.kid]))
                CUR.rec("exchange", priv=self.kid, pub=peer_public_key.kid, out=z)
                return z
    Pub.__name__, Priv.__name__ = "Fake%sPublic" % family, "Fake%sPrivate" % family
    return Pub, Priv


FakeEd25519Public, FakeEd25519Private = _okp_pair(_ed25519.Ed25519PublicKey, _ed25519.Ed25519PrivateKey, "Ed25519", True)
FakeEd448Public, FakeEd448Private = _okp_pair(_ed448.Ed448PublicKey, _ed448.Ed448PrivateKey, "Ed448", True)
FakeX25519Public, FakeX25519Private = _okp_pair(_x25519.X25519PublicKey, _x25519.X25519PrivateKey, "X25519", False)
FakeX448Public, FakeX448Private = _okp_pair(_x448.X448PublicKey, _x448.X448PrivateKey, "X448", False)


def fake_key(kind, kid=None, private=False, params=None):
    """A joserfc Key object around a fake native key.  kind: 'oct<N>' | 'RSA' | 'RSA1024' | EC curve | OKP curve."""
    from joserfc.jwk import OctKey, RSAKey, ECKey, OKPKey
    params = dict(params or {})
    name = kid or kind
    if kind.startswith("oct"):
        n = int(kind[3:] or 32)
        raw = bytes((i * 7 + n) % 256 for i in range(n))
        return OctKey(raw, {"kty": "oct", "k": "k-" + name, **({"kid": kid} if kid else {}), **params})
    if kind.startswith("RSA"):
        bits = int(kind[3:] or 2048)
        native = FakeRSAPrivate(name, bits) if private else FakeRSAPublic(name, bits)
        d = {"kty": "RSA", "n": "n-" + name, "e": "AQAB"}
        if private:
            d["d"] = "d-" + name
        return RSAKey(native, {**d, **({"kid": kid} if kid else {}), **params})
    if kind in CURVES:
        native = FakeECPrivate(name, kind) if private else FakeECPublic(name, kind)
        d = {"kty": "EC", "crv": kind, "x": "x-" + name, "y": "y-" + name}
        if private:
            d["d"] = "d-" + name
        return ECKey(native, {**d, **({"kid": kid} if kid else {}), **params})
    cls = {"Ed25519": (FakeEd25519Public, FakeEd25519Private), "Ed448": (FakeEd448Public, FakeEd448Private),
           "X25519": (FakeX25519Public, FakeX25519Private), "X448": (FakeX448Public, FakeX448Private)}[kind]
    native = cls[1](name) if private else cls[0](name)
    d = {"kty": "OKP", "crv": kind, "x": "x-" + name}
    if private:
        d["d"] = "d-" + name
    return OKPKey(native, {**d, **({"kid": kid} if kid else {}), **params})


# ------------------------------------------------------------------ JWE leaves
from cryptography.exceptions import InvalidTag
from cryptography.hazmat.primitives.keywrap import InvalidUnwrap


class Sized(Opaque):
    """opaque octets of KNOWN length (derived keys): len() works, slicing keeps track of the cut."""
    def __init__(self, kind, n, *parts, cut=None):
        super().__init__(kind, *parts, cut=cut)
        self.n = n

    def __eq__(self, o):
        return isinstance(o, Sized) and self.n == o.n and Opaque.__eq__(self, o)

    __hash__ = Opaque.__hash__

    def __len__(self):
        return self.n

    def __bool__(self):
        return self.n > 0

    def octets(self, env):
        global CUR
        prev, CUR = CUR, env
        try:
            return self.__bytes__()
        finally:
            CUR = prev

    def __bytes__(self):
        """a concrete stand-in of the right length: equal opaque values get equal octets, different ones different octets"""
        if CUR is None:
            raise HarnessError("bytes() of an opaque value outside an environment: use .octets(env)")
        table = CUR.bytes_table        # per environment: nothing symbolic may outlive a path
        for obj, tok in table:
            if obj == self:
                return tok
        i = len(table)
        tok = ((b"<%05d>" % i) * (self.n // 7 + 1))[:self.n]
        table.append((self, tok))
        return tok

    def __iter__(self):
        return iter(self.__bytes__())        # (CrossHair's bytes() iterates anything with __getitem__)

    def __getitem__(self, s):
        if isinstance(s, slice):
            a, b, _ = s.indices(self.n)
            return Sized(self.kind, max(0, b - a), *self.parts, cut=(self.cut, a, b))
        return self.__bytes__()[s]


_BYTES_TABLE = []


def _blen(x):
    return len(x)


def _is_octets(x):
    return isinstance(x, (bytes, bytearray, Sized))


class FakeAES:
    block_size = 128

    def __init__(self, key):
        if not _is_octets(key):
            raise TypeError("key must be bytes-like")
        if _blen(key) not in (16, 24, 32):
            raise ValueError("Invalid key size (%d) for AES." % (_blen(key) * 8))
        self.key = key


class FakeGCM:
    def __init__(self, initialization_vector, tag=None, min_tag_length=16):
        if not isinstance(initialization_vector, (bytes, bytearray)):
            raise TypeError("initialization_vector must be bytes-like")
        if not 8 <= len(initialization_vector) <= 128:
            raise ValueError("initialization_vector must be between 8 and 128 bytes (64 and 1024 bits).")
        if tag is not None:
            if not isinstance(tag, (bytes, bytearray)):
                raise TypeError("tag must be bytes or None")
            if len(tag) < min_tag_length:
                raise ValueError("Authentication tag must be %d bytes or longer." % min_tag_length)
            if len(tag) > 16:
                raise ValueError("Authentication tag cannot be more than 16 bytes.")       # (probed on pyca/cryptography 50)
        self.iv, self.tag = initialization_vector, tag


class FakeCBC:
    def __init__(self, initialization_vector):
        if not isinstance(initialization_vector, (bytes, bytearray)):
            raise TypeError("initialization_vector must be bytes-like")
        self.iv = initialization_vector


class FakeCipher:
    def __init__(self, algorithm, mode, backend=None):
        if isinstance(mode, FakeCBC) and len(mode.iv) != 16:
            raise ValueError("Invalid IV size (%d) for CBC." % len(mode.iv))
        self.alg, self.mode = algorithm, mode

    def encryptor(self):
        return _CipherCtx(self, True)

    def decryptor(self):
        return _CipherCtx(self, False)


class _CipherCtx:
    def __init__(self, c, enc):
        self.c, self.enc, self.aad, self.data, self.tag = c, enc, None, b"", None

    def authenticate_additional_data(self, a):
        self.aad = a

    def update(self, d):
        self.data = d
        return b""

    def finalize(self):
        env = CUR
        gcm = isinstance(self.c.mode, FakeGCM)
        kind = "gcm" if gcm else "cbc"
        if self.enc:
            if gcm:
                ct, self.tag = _gcm_encrypt(env, self.c.alg.key, self.c.mode.iv, self.aad, self.data)
                return ct
            n = _known_len(self.data)
            if n is not None and n % 16 != 0:
                raise ValueError("The length of the provided data is not a multiple of the block length.")
            i = len(env.of(kind + "_encrypt"))
            ct = b"CC%d-16-octets--" % i
            env.rec(kind + "_encrypt", key=self.c.alg.key, iv=self.c.mode.iv, aad=self.aad, pt=self.data, ct=ct)
            return ct
        if gcm:
            return _gcm_decrypt(env, self.c.alg.key, self.c.mode.iv, self.aad, self.data, getattr(self.c.mode, "tag", None))
        r = env.rec(kind + "_decrypt", key=self.c.alg.key, iv=self.c.mode.iv, aad=self.aad, ct=self.data,
                    tag=getattr(self.c.mode, "tag", None))
        # CBC has no authentication of its own: with a tag the sender can make valid (he knows the CEK) the decrypted octets are
        # whatever he likes -- env.cbc_shape picks the class: 0 well padded, 1 empty (no block at all), 2 a block with bad padding,
        # 3 a full block of padding (empty plaintext)
        if env.adv:
            shape = getattr(env, "cbc_shape", 0)
            r["out"] = [pkcs7(env.plaintext), b"", b"\x00" * 16, bytes([16]) * 16][shape]
            return r["out"]
        for e in env.of("cbc_encrypt"):
            if e["key"] == r["key"] and e["iv"] == r["iv"] and e["ct"] == r["ct"]:
                return e["pt"]
        return b"garbage-from-wrong-key"


def _gcm_decrypt(env, key, iv, aad, ct, tag):
    r = env.rec("gcm_decrypt", key=key, iv=iv, aad=aad, ct=ct, tag=tag)
    if env.adv:
        r["verdict"] = env.verdict()
        if not r["verdict"]:
            raise InvalidTag()
        r["out"] = env.next_cek() if aad is None else env.plaintext     # no AAD = AES-GCM key wrap
        return r["out"]
    for e in env.of("gcm_encrypt"):
        if e["key"] == r["key"] and e["iv"] == r["iv"] and e["aad"] == r["aad"] and e["ct"] == r["ct"] and e["tag"] == r["tag"]:
            r["verdict"] = True
            return e["pt"]
    r["verdict"] = False
    raise InvalidTag()


def _gcm_encrypt(env, key, iv, aad, pt):
    i = len(env.of("gcm_encrypt"))
    # GCM is a stream mode: the ciphertext is exactly as long as the plaintext (empty for an empty plaintext)
    ct = ((b"G%d" % i) + b"c" * 8)[:len(pt)] if isinstance(pt, (bytes, bytearray)) and len(pt) < 8 else b"GC%d-long" % i
    tag = b"GCMTAG-16-OCT%03d" % (i % 1000)
    env.rec("gcm_encrypt", key=key, iv=iv, aad=aad, pt=pt, ct=ct, tag=tag)
    return ct, tag


class FakeAESGCM:
    """stand-in for the one-shot cryptography...aead.AESGCM (not used by the pinned tree; a refactoring may move to it):
    encrypt -> ciphertext || 16-octet tag, decrypt takes the LAST 16 octets as the tag"""
    def __init__(self, key):
        if _blen(key) not in (16, 24, 32):
            raise ValueError("AESGCM key must be 128, 192, or 256 bits.")
        self.key = key

    def encrypt(self, nonce, data, associated_data):
        if not 8 <= len(nonce) <= 128:
            raise ValueError("Nonce must be between 8 and 128 bytes")
        ct, tag = _gcm_encrypt(CUR, self.key, nonce, associated_data, data)
        return ct + tag

    def decrypt(self, nonce, data, associated_data):
        if not 8 <= len(nonce) <= 128:
            raise ValueError("Nonce must be between 8 and 128 bytes")
        if len(data) < 16:
            raise InvalidTag()
        return _gcm_decrypt(CUR, self.key, nonce, associated_data, data[:-16], data[-16:])


class FakePKCS7:
    """PKCS#7 padding, faithful for octet strings of known length (1..block octets are always added; unpadding checks and strips
    them); for opaque data of unknown length the padding is a marker that only the matching unpadder removes."""
    def __init__(self, block_size):
        self.block = block_size // 8

    def padder(self):
        return _Pad(self.block, True)

    def unpadder(self):
        return _Pad(self.block, False)


def _known_len(d):
    try:
        return len(d)
    except TypeError:
        return None


class _Pad:
    def __init__(self, block=16, padding=True):
        self.block, self.padding, self.d = block, padding, b""

    def update(self, d):
        self.d = d
        return d if self.padding else b""

    def finalize(self):
        d, B = self.d, self.block
        n = _known_len(d)
        if self.padding:
            if n is None:
                return Opaque("pkcs7pad", d)
            r = n % B
            for j in range(B):               # (concrete pad length per path)
                if r == j:
                    return bytes([B - j]) * (B - j)
            raise HarnessError("unreachable")
        # unpadding
        if isinstance(d, Opaque) and n is None:
            if d.kind == "cat" and len(d.parts) == 2 and d.cut is None and d.parts[1] == Opaque("pkcs7pad", d.parts[0]):
                return d.parts[0]
            raise ValueError("Invalid padding bytes.")
        if n == 0 or n % B != 0:
            raise ValueError("Invalid padding bytes.")
        k = d[n - 1]
        for j in range(1, B + 1):
            if k == j:
                if d[n - j:] != bytes([j]) * j:
                    raise ValueError("Invalid padding bytes.")
                return d[:n - j]
        raise ValueError("Invalid padding bytes.")


def pkcs7(data, block=16):
    p = _Pad(block, True)
    return p.update(data) + p.finalize()


def fake_aes_key_wrap(wrapping_key, key_to_wrap, backend=None):
    env = CUR
    if _blen(wrapping_key) not in (16, 24, 32):
        raise ValueError("The wrapping key must be a valid AES key length")
    if _blen(key_to_wrap) < 16:
        raise ValueError("The key to wrap must be at least 16 bytes")
    if _blen(key_to_wrap) % 8:
        raise ValueError("The key to wrap must be a multiple of 8 bytes")
    i = len(env.of("wrap"))
    out = (b"WRAP%04d" % i) + b"w" * _blen(key_to_wrap)        # RFC 3394: 8 octets longer than the wrapped key
    env.rec("wrap", key=wrapping_key, cek=key_to_wrap, out=out)
    return out


def fake_aes_key_unwrap(wrapping_key, wrapped_key, backend=None):
    env = CUR
    if _blen(wrapping_key) not in (16, 24, 32):
        raise ValueError("The wrapping key must be a valid AES key length")
    r = env.rec("unwrap", key=wrapping_key, ek=wrapped_key)
    if _blen(wrapped_key) < 24 or _blen(wrapped_key) % 8:
        r["verdict"] = False
        raise InvalidUnwrap("Must be at least 24 bytes / a multiple of 8 bytes")
    if env.adv:
        r["verdict"] = env.verdict()
        if not r["verdict"]:
            raise InvalidUnwrap()
        r["out"] = env.next_cek()
        return r["out"]
    for w in env.of("wrap"):
        if w["key"] == wrapping_key and w["out"] == wrapped_key:
            r["verdict"] = True
            return w["cek"]
    r["verdict"] = False
    raise InvalidUnwrap()


def _next_cek(self):
    if not self.ceks:
        raise HarnessError("not enough scripted CEKs")
    return self.ceks.pop(0)


Env.next_cek = _next_cek
Env.ceks = ()
Env.plaintext = b"decrypted-plaintext"


class FakeConcatKDFHash:
    def __init__(self, algorithm, length, otherinfo, backend=None):
        if not isinstance(length, int):
            raise TypeError("length must be an int")
        if length > 137438953440 // 8:
            raise ValueError("Cannot derive keys larger than 137438953440 bits.")
        self.h, self.length, self.otherinfo = algorithm.name, length, otherinfo

    def derive(self, z):
        out = Sized("concatkdf", self.length, self.h, self.length, self.otherinfo, z)
        CUR.rec("concatkdf", hash=self.h, length=self.length, otherinfo=self.otherinfo, z=z, out=out)
        return out


class FakePBKDF2HMAC:
    def __init__(self, algorithm, length, salt, iterations, backend=None):
        if not isinstance(iterations, int):
            raise TypeError("%r object cannot be interpreted as an integer" % type(iterations).__name__)
        if iterations < 0:
            raise OverflowError("can't convert negative int to unsigned")
        if iterations >= 2 ** 64:
            raise OverflowError("int too big to convert")
        if iterations < 1:
            raise ValueError("iterations must be greater than or equal to 1.")
        self.h, self.length, self.salt, self.iterations = algorithm.name, length, salt, iterations

    def derive(self, key):
        out = Sized("pbkdf2", self.length, self.h, self.length, self.salt, self.iterations, key)
        CUR.rec("pbkdf2", hash=self.h, length=self.length, salt=self.salt, iterations=self.iterations, key=key, out=out)
        return out


class FakeChaCha:
    """stand-in for the Crypto.Cipher.ChaCha20_Poly1305 module"""
    @staticmethod
    def new(key=None, nonce=None):
        if _blen(key) != 32:
            raise ValueError("Key must be 32 bytes long")
        if len(nonce) not in (8, 12, 24):
            raise ValueError("Nonce must be 8, 12 or 24 bytes long")
        return _ChaCtx(key, nonce)


class _ChaCtx:
    def __init__(self, key, nonce):
        self.key, self.nonce, self.aad = key, nonce, None

    def update(self, aad):
        self.aad = aad

    def encrypt_and_digest(self, pt):
        env = CUR
        i = len(env.of("chacha_encrypt"))
        ct = ((b"X%d" % i) + b"c" * 8)[:len(pt)] if isinstance(pt, (bytes, bytearray)) and len(pt) < 8 else b"XC%d-long" % i
        tag = b"CHACHATAG-OCT%03d" % (i % 1000)
        env.rec("chacha_encrypt", key=self.key, iv=self.nonce, aad=self.aad, pt=pt, ct=ct, tag=tag)
        return ct, tag

    def decrypt_and_verify(self, ct, tag):
        env = CUR
        r = env.rec("chacha_decrypt", key=self.key, iv=self.nonce, aad=self.aad, ct=ct, tag=tag)
        if len(tag) != 16:
            r["verdict"] = False          # probed on PyCryptodome: a tag that is not 16 octets never verifies
            raise ValueError("MAC check failed")
        if env.adv:
            r["verdict"] = env.verdict()
            if not r["verdict"]:
                raise ValueError("MAC check failed")
            r["out"] = env.plaintext
            return r["out"]
        for e in env.of("chacha_encrypt"):
            if all(e[k] == r[k] for k in ("key", "iv", "aad", "ct", "tag")):
                r["verdict"] = True
                return e["pt"]
        r["verdict"] = False
        raise ValueError("MAC check failed")


class FakeZlib:
    """ideal DEFLATE: compress(s) = 2-octet zlib header || token || 4-octet checksum; decompressobj understands the tokens"""
    @staticmethod
    def compress(s, *a, **k):
        env = CUR
        i = len(env.of("zcompress"))
        body = b"DEFLATED%d" % i
        env.rec("zcompress", data=s, body=body)
        return b"\x78\x9c" + body + b"ADLR"

    @staticmethod
    def decompressobj(wbits=15, *a):
        return _ZD(wbits)


class _ZD:
    def __init__(self, wbits):
        self.wbits, self.unconsumed_tail, self.eof, self.unused_data = wbits, b"", False, b""

    def decompress(self, data, max_length=0):
        env = CUR
        r = env.rec("zdecompress", data=data, max_length=max_length, wbits=self.wbits, after=len(env.calls))
        for c in env.of("zcompress"):
            if c["body"] == data or b"\x78\x9c" + c["body"] + b"ADLR" == data:
                self.eof = True
                return c["data"]
        if env.adv:
            self.eof = True
            r["out"] = b"inflated:" + (data if isinstance(data, bytes) else b"?")
            return r["out"]
        raise zlib.error("Error -3 while decompressing data: invalid stored block lengths")

    def flush(self, length=None):
        return b""


def jwe_patches():
    """mock.patch objects for every pyca / PyCryptodome / zlib leaf used by the JWE code (call inside Env.installed(extra=...))."""
    from cryptography.hazmat.primitives.keywrap import aes_key_wrap, aes_key_unwrap
    from cryptography.hazmat.primitives.ciphers import Cipher
    from cryptography.hazmat.primitives.ciphers.algorithms import AES
    from cryptography.hazmat.primitives.ciphers.modes import GCM, CBC
    from cryptography.hazmat.primitives.padding import PKCS7
    from cryptography.hazmat.primitives.kdf.pbkdf2 import PBKDF2HMAC
    from cryptography.hazmat.primitives.kdf.concatkdf import ConcatKDFHash
    from cryptography.hazmat.primitives.ciphers.aead import AESGCM
    import joserfc.jwe  # noqa  (make sure the modules are loaded)
    mapping = {"aes_key_wrap": (aes_key_wrap, fake_aes_key_wrap), "aes_key_unwrap": (aes_key_unwrap, fake_aes_key_unwrap),
               "Cipher": (Cipher, FakeCipher), "AES": (AES, FakeAES), "GCM": (GCM, FakeGCM), "CBC": (CBC, FakeCBC),
               "PKCS7": (PKCS7, FakePKCS7), "PBKDF2HMAC": (PBKDF2HMAC, FakePBKDF2HMAC), "ConcatKDFHash": (ConcatKDFHash, FakeConcatKDFHash),
               "AESGCM": (AESGCM, FakeAESGCM)}
    try:
        import joserfc.drafts.jwe_chacha20  # noqa
        from Crypto.Cipher import ChaCha20_Poly1305
        mapping["ChaCha20_Poly1305"] = (ChaCha20_Poly1305, FakeChaCha)
    except ImportError:
        pass
    out = patch_joserfc_names(mapping)
    out.append((zlib, "compress", FakeZlib.compress))
    out.append((zlib, "decompressobj", FakeZlib.decompressobj))
    return out


class FakeECNumbers:
    """stand-in for EllipticCurvePublicNumbers in joserfc.rfc7518.ec_key: .public_key() yields a fake point or ValueError"""
    def __init__(self, x, y, curve):
        self.x, self.y, self.curve = x, y, curve

    def public_key(self, backend=None):
        env = CUR
        name = {"secp256r1": "P-256", "secp384r1": "P-384", "secp521r1": "P-521", "secp256k1": "secp256k1"}[self.curve.name]
        r = env.rec("ec_point", x=self.x, y=self.y, crv=name)
        if getattr(env, "epk_invalid", False):
            raise ValueError("Invalid EC key. Point is not on the curve specified.")
        return FakeECPublic(POINTS.get((self.x, self.y, name), "epk"), name)


class FakeECPrivateNumbers:
    def __init__(self, private_value, public_numbers):
        self.private_value, self.public_numbers = private_value, public_numbers

    def private_key(self, backend=None):
        env = CUR
        pub = self.public_numbers.public_key()          # raises ValueError for an invalid point
        env.rec("ec_private_import", d=self.private_value)
        return FakeECPrivate("epk", pub.crv)


def ec_import_patches():
    import joserfc.rfc7518.ec_key as EK
    from cryptography.hazmat.primitives.asymmetric.ec import EllipticCurvePublicNumbers, EllipticCurvePrivateNumbers
    out = patch_joserfc_names({"EllipticCurvePublicNumbers": (EllipticCurvePublicNumbers, FakeECNumbers),
                               "EllipticCurvePrivateNumbers": (EllipticCurvePrivateNumbers, FakeECPrivateNumbers)})
    return out


def okp_import_patches():
    import joserfc.rfc8037.okp_key as OK

    def mk(pub_cls):
        class Loader:
            @staticmethod
            def from_public_bytes(data):
                env = CUR
                env.rec("okp_point", x=data)
                if getattr(env, "epk_invalid", False):
                    raise ValueError("An X25519 public key is 32 bytes long")
                kid = data[4:].decode() if isinstance(data, bytes) and data.startswith(b"PUB-") else "epk"
                return pub_cls(kid)
        return Loader
    return [(OK.PUBLIC_KEYS_MAP, "X25519", mk(FakeX25519Public)), (OK.PUBLIC_KEYS_MAP, "X448", mk(FakeX448Public)),
            (OK.PUBLIC_KEYS_MAP, "Ed25519", mk(FakeEd25519Public)), (OK.PUBLIC_KEYS_MAP, "Ed448", mk(FakeEd448Public))]


def keygen_patches():
    """key generation leaves: every generated native key is a fresh fake key, recorded as a draw from the key generator"""
    import joserfc.rfc7518.ec_key as EK
    import joserfc.rfc7518.rsa_key as RK
    import joserfc.rfc8037.okp_key as OK
    from cryptography.hazmat.primitives.asymmetric.ec import generate_private_key as ec_gen
    from cryptography.hazmat.primitives.asymmetric.rsa import generate_private_key as rsa_gen

    def fake_ec_gen(curve, backend=None):
        env = CUR
        name = {"secp256r1": "P-256", "secp384r1": "P-384", "secp521r1": "P-521", "secp256k1": "secp256k1"}[curve.name]
        kid = "gen%d" % len(env.draws)
        env.draws.append({"n": None, "value": kid, "source": "ec.generate_private_key", "curve": name})
        return FakeECPrivate(kid, name)

    def fake_rsa_gen(public_exponent, key_size, backend=None):
        env = CUR
        kid = "gen%d" % len(env.draws)
        env.draws.append({"n": key_size, "value": kid, "source": "rsa.generate_private_key", "public_exponent": public_exponent})
        return FakeRSAPrivate(kid, key_size)

    out = []
    for mod in (EK, RK):
        if getattr(mod, "generate_private_key", None) is ec_gen:
            out.append((mod, "generate_private_key", fake_ec_gen))
        if getattr(mod, "generate_private_key", None) is rsa_gen:
            out.append((mod, "generate_private_key", fake_rsa_gen))

    def mk(priv_cls, crv):
        class Gen:
            @staticmethod
            def generate():
                env = CUR
                kid = "gen%d" % len(env.draws)
                env.draws.append({"n": None, "value": kid, "source": "okp.generate", "curve": crv})
                return priv_cls(kid)

            @staticmethod
            def from_private_bytes(data):
                return priv_cls("imported")
        return Gen
    for crv, cls in (("Ed25519", FakeEd25519Private), ("Ed448", FakeEd448Private), ("X25519", FakeX25519Private), ("X448", FakeX448Private)):
        out.append((OK.PRIVATE_KEYS_MAP, crv, mk(cls, crv)))
    return out


PRIVATE_NAMES = ("d", "p", "q", "dp", "dq", "qi", "oth", "k")


def leak_scan(env, output, oct_keys=(), kids=()):
    """C12: `output` (a compact token or a JSON-serialization dict / exported JWK) is decoded transitively through the opaque
    codec tables; nothing reachable from it may be private material: no private JWK member name in any JSON object, no octets
    of a private accessor (fake keys return b'PRIV-<kid>' / distinctive integers), no raw symmetric key."""
    secrets_int = {secret_int(k, m) for k in kids for m in ("d", "p", "q", "dp", "dq", "qi")}
    b64 = {tok: v for v, tok in env.b64_made}
    js = {tok: v for v, tok in env.js_made}
    leaks = []
    seen = set()

    def walk(v, where, depth=0):
        if depth > 8:
            return
        cn = v.__class__.__name__
        if cn.startswith(("Symbolic", "LazyInt", "AnySymbolic")) or isinstance(v, Opaque):
            return            # CrossHair symbolic leaves (harness inputs such as the payload) and opaque primitive outputs
        if not isinstance(v, (dict, list, tuple, str, bytes, int)):
            return            # (isinstance, not __class__: dict(...) / set(...) made under tracing are proxy containers)
        if isinstance(v, dict):
            for k, x in v.items():
                if k in PRIVATE_NAMES:
                    leaks.append("%s: member %r" % (where, k))
                walk(x, where, depth + 1)
        elif isinstance(v, (list, tuple)):
            for x in v:
                walk(x, where, depth + 1)
        elif isinstance(v, str):
            for part in v.split("."):
                pb = part.encode()
                if pb in b64 and pb not in seen:
                    seen.add(pb)
                    walk(b64[pb], where + ">" + part, depth + 1)
            if v in js:
                walk(js[v], where + ">json", depth + 1)
        elif isinstance(v, bytes):
            try:
                t = v.decode()
            except UnicodeDecodeError:
                t = None
            if t is not None and t in js:
                walk(js[t], where + ">json", depth + 1)
            if len(v) >= 5 and b"PRIV-" in v:
                leaks.append("%s: private octets" % where)
            for ok in oct_keys:
                if len(v) == len(ok) and v == ok:
                    leaks.append("%s: raw symmetric key" % where)
            if len(v) >= 30 and int.from_bytes(v, "big") in secrets_int:
                leaks.append("%s: private integer" % where)
        elif isinstance(v, int) and not isinstance(v, bool):
            if v in secrets_int:
                leaks.append("%s: private integer" % where)
    walk(output, "output")
    return leaks
