"""bin/check entry: bin/check <ID> [--tier quick|thorough] | bin/check --replay FILE"""
import sys, os, json, importlib, argparse
from vlib import core


def main():
    ap = argparse.ArgumentParser()
    ap.add_argument("pid", nargs="?")
    ap.add_argument("--tier", default=os.environ.get("VERIF_TIER", "quick"))
    ap.add_argument("--replay")
    a = ap.parse_args()
    if a.replay:
        rec = json.load(open(a.replay))
        cond = rec["condition"]
        if ":" in cond and cond.split(":")[0].endswith(".py"):
            mod, func = cond.split(":")
            path = os.path.join(core.ROOT, "vlib", "harness", mod)
            if not os.path.exists(path):
                # generated (specialised) harness: regenerate it through the property's plan
                importlib.import_module("vlib.props." + rec["property"].lower()).plan("quick")
                path = os.path.join(core.ROOT, ".work", mod)
            rep = core.run_replay(path, func, rec["counterexample"])
        else:
            rep = rec["replay"]
            print("E2 counterexamples are replayed natively by the obligation itself; recorded replay:")
        print(json.dumps(rep, indent=1))
        if rep.get("violated"):
            print("VIOLATION property=%s replay=%s" % (rec["property"], a.replay))
            return 1
        return 0
    pid = a.pid.upper()
    tier = a.tier if a.tier in ("quick", "thorough") else "quick"
    os.environ["VERIF_TIER_EFFECTIVE"] = tier
    os.environ["VERIF_TIER"] = tier
    mod = importlib.import_module("vlib.props." + pid.lower())
    plan = mod.plan(tier)
    run = core.Run(pid, tier)
    run.log("== %s tier=%s : %d E1 conditions, %d E2 obligations (sources regenerated from %s)"
            % (pid, tier, len(plan["conds"]), len(plan["obls"]), core.SRC))
    run.execute(plan["conds"], plan["obls"])
    run.judge()
    return run.finish(plan["meta"])


if __name__ == "__main__":
    sys.exit(main())
