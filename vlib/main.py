"""bin/check entry: bin/check <ID> [--tier quick|thorough] | bin/check --replay FILE"""
import sys, os, json, importlib, argparse
from vlib import core


def main():
    ap = argparse.ArgumentParser()
    ap.add_argument("pid", nargs="?")
    ap.add_argument("--tier", default=os.environ.get("VERIF_TIER", "quick"))
    ap.add_argument("--replay")
    a = ap.parse_args()
    if a.replay:
        rec = json.load(open(a.replay))
        cond = rec["condition"]
        if ":" in cond and cond.split(":")[0].endswith(".py"):
            mod, func = cond.split(":")
            path = os.path.join(core.ROOT, "vlib", "harness", mod)
            if not os.path.exists(path):
                # generated (specialised) harness: regenerate it through the property's plan
                importlib.import_module("vlib.props." + rec["property"].lower()).plan("quick")
                path = os.path.join(core.ROOT, ".work", mod)
            rep = core.run_replay(path, func, rec["counterexample"])
        else:
            rep = rec["replay"]
            print("E2 counterexamples are replayed natively by the obligation itself; recorded replay:")
        print(json.dumps(rep, indent=1))
        if rep.get("violated"):
            print("VIOLATION property=%s replay=%s" % (rec["property"], a.replay))
            return 1
        return 0
    pid = a.pid.upper()
    tier = a.tier if a.tier in ("quick", "thorough") else "quick"
    os.environ["VERIF_TIER_EFFECTIVE"] = tier
    os.environ["VERIF_TIER"] = tier
    os.environ["VERIF_PROPERTY"] = pid          # a harness shared by two properties judges a replay by the one being checked
    mod = importlib.import_module("vlib.props." + pid.lower())
    run = core.Run(pid, tier)
    if tier == "thorough":
        # phase 1 ("floor"): the quick plan, strict -- every condition must be exhausted
        os.environ["VERIF_TIER_EFFECTIVE"] = os.environ["VERIF_TIER"] = "quick"
        floor = mod.plan("quick")
        run.log("== %s tier=thorough phase 1 (floor = quick plan, strict): %d E1 conditions, %d E2 obligations (sources regenerated from %s)"
                % (pid, len(floor["conds"]), len(floor["obls"]), core.SRC))
        run.execute(floor["conds"], floor["obls"])
        run.judge()
        os.environ["VERIF_TIER_EFFECTIVE"] = os.environ["VERIF_TIER"] = "thorough"
        if core.ABORT.is_set():
            return run.finish(floor["meta"])
    plan = mod.plan(tier)
    conds, obls = plan["conds"], plan["obls"]
    if tier == "thorough":
        # phase 2 ("deep"): wider bounds; per-condition budgets are scaled so that the phase fits the wall budget; a condition whose
        # path tree is not exhausted in its budget is reported as PARTIAL (explored part held), never as confirmed
        wall = float(os.environ.get("VERIF_THOROUGH_WALL") or plan.get("deep_wall", 600))
        tot = sum(c.timeout for c in conds) + sum(o.timeout for o in obls)
        scale = min(1.0, wall * core.JOBS / max(tot, 1.0))
        for x in conds + obls:
            x.timeout = max(60.0 if x in conds else 120.0, round(x.timeout * scale))
    run.log("== %s tier=%s%s : %d E1 conditions, %d E2 obligations (sources regenerated from %s)"
            % (pid, tier, " phase 2 (deep, budgeted)" if tier == "thorough" else "", len(conds), len(obls), core.SRC))
    run.execute(conds, obls, lenient=(tier == "thorough"))
    run.judge()
    return run.finish(plan["meta"])


if __name__ == "__main__":
    sys.exit(main())
