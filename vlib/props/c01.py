"""C01 — JWS verification returns only authentically signed content (E1 adversarial + E2 ECDSA R||S kernel)."""
import z3
from vlib import pysym as P
from vlib.core import Cond, Obl

H = "c01_jws.py"


def ecdsa_verify_split(alg):
    """ECAlgModel.verify: for every received signature length L in 0..2*len+2 and every content, the primitive is consulted
    only if L == 2*ceil(bits/8), and then with r = OS2IP(sig[:len]), s = OS2IP(sig[len:]), the message unchanged."""
    from joserfc.jws import JWSRegistry
    from cryptography.hazmat.primitives.asymmetric import utils as U
    model = JWSRegistry.algorithms[alg]
    crv, bits = {"ES256": ("P-256", 256), "ES384": ("P-384", 384), "ES512": ("P-521", 521), "ES256K": ("secp256k1", 256)}[alg]
    length = (bits + 7) // 8
    res = dict(paths=0, queries=0, unsat=0, sat=0, unknown=0, secs=0.0, functions=set())
    for L in sorted(set([0, 1, length - 1, length, length + 1, 2 * length - 2, 2 * length - 1, 2 * length, 2 * length + 1, 2 * length + 2])):
        sig = P.SBytes([z3.BitVec("g%d" % i, 8) for i in range(L)])
        msg = b"hdr.payload"

        class OpKey:
            pass

        class Key:
            curve_name = crv
            curve_key_size = bits

            def get_op_key(self, op):
                self.ops.append(op)
                return self.opk
        Key.get_op_key.__pysym_native__ = True

        def path(it):
            calls = []
            key = Key()
            key.ops = []
            key.opk = OpKey()

            def verify(der, m, algo):
                calls.append((der, m, algo))
            verify.__pysym_native__ = True
            key.opk.verify = verify

            def m_encode(it_, args, kw):
                return ("DER", args[0], args[1])
            it.models[U.encode_dss_signature] = m_encode
            try:
                r = it.call(model.verify, msg, sig, key)
            except P.Raised:
                return False
            if L != 2 * length:
                return r is False and not calls
            if r is not True or len(calls) != 1 or key.ops != ["verify"]:
                return False
            der, m, algo = calls[0]
            if m != msg or not isinstance(der, tuple) or der[0] != "DER" or type(algo).__name__ != "ECDSA" or \
                    algo.algorithm.name != model.hash_alg().name:
                return False
            return z3.And(P.int_cmp("==", der[1], P.os2ip(sig.items[:length])), P.int_cmp("==", der[2], P.os2ip(sig.items[length:])))

        def replay(cex):
            return {"violated": None, "detail": "ECDSA split counterexample sig=%s (replayed by the E1 compact_asym harness through the public API)" % cex["sig"].hex()}

        r = P.explore(path, {"sig": sig}, replay)
        for k in ("paths", "queries", "unsat", "sat", "unknown"):
            res[k] += r.get(k, 0)
        res["secs"] += r.get("secs", 0)
        res["functions"] |= set(r.get("functions", []))
        if r["verdict"] != "confirmed":
            r["detail"] = "alg=%s received length %d: %s" % (alg, L, r.get("detail") or r.get("cex"))
            if r["verdict"] == "cex":
                # replay through the public API: a valid signature whose halves are zero-extended / truncated
                from vlib.harness_loader import load
                hm = load("c01_jws.py")
                ai = hm.ASYM.index(alg)
                ki = hm.AKEYS.index(crv)
                for si in (2, 1, 4, 3, 0):
                    for vr in (True, False):
                        rep = hm.replay_asym(ai, ki, si, vr)
                        if rep.get("violated"):
                            r["replay"] = rep
                            break
                    if r.get("replay", {}).get("violated"):
                        break
                else:
                    r["replay"] = {"violated": None, "detail": "kernel counterexample did not reproduce through jws.deserialize_compact"}
            r["functions"] = sorted(res["functions"])
            return r
    res["functions"] = sorted(res["functions"])
    res["secs"] = round(res["secs"], 2)
    res["verdict"] = "confirmed"
    res["sample"] = {"alg": alg, "lengths": "0,1,len-1,len,len+1,2len-2..2len+2", "goal": "primitive consulted iff L==2len with r,s=OS2IP halves"}
    return res


def plan(tier):
    q = tier == "quick"
    T = 300 if q else 1500
    conds = [
        Cond(H, "compact_alg_allow", "main", T, "compact: alg value x allow-list x empty payload/signature segment x verdict"),
        Cond(H, "compact_kid_key", "main", T, "compact: kid (str/int) x key / key set / callable x alg"),
        Cond(H, "compact_kid_key_witness", "witness", 120),
        Cond(H, "compact_header_members", "main", T, "compact: typ of every JSON type, crit forms, unknown member"),
        Cond(H, "compact_header_decoding", "main", T, "compact: header b64/JSON failure, non-object header, kid of every JSON type"),
        Cond(H, "compact_reject_witness", "witness", 60),
        Cond(H, "twostep_compact", "main", T, "two-step API: extract_compact of two tokens in either order, validate_compact judges the token it was given"),
        Cond(H, "history_two_calls", "main", T, "two calls in one process (compact, flattened, general, RFC 7797 json/compact): the second token re-uses the first one's protected (and signature) segment over another payload and is decided by its own MAC comparison"),
        Cond(H, "compact_asym", "main", T * 2, "compact: 11 asymmetric algs x 9 key kinds x 5 signature lengths x verdict; RFC parameter table"),
        Cond(H, "compact_asym_witness", "witness", 300),
        Cond(H, "general_json_kf0", "main", T * 2, "general JSON 0..2 signatures, key given directly"),
        Cond(H, "general_json_kf1", "main", T * 2, "general JSON 0..2 signatures, key set"),
        Cond(H, "general_json_kf2", "main", T * 2, "general JSON 0..2 signatures, callable"),
        Cond(H, "general_json_witness", "witness", 300),
        Cond(H, "general_json_structure", "main", T, "missing payload / signatures members, empty list"),
        Cond(H, "flattened_json", "main", T, "flattened JSON x allow-lists x key forms"),
        Cond(H, "rfc7797_compact", "main", T, "RFC 7797 compact: b64 of several JSON types, crit, attached/detached payload"),
        Cond(H, "rfc7797_compact_witness", "witness", 120),
        Cond(H, "rfc7797_json", "main", T, "RFC 7797 flattened JSON: b64 absent / in protected header (unprotected: known finding, own condition)"),
        Cond(H, "rfc7797_json_unprotected", "main", T, "known finding region: b64 only in the unprotected header"),
    ]
    algs = ["ES256", "ES512"] if q else ["ES256", "ES384", "ES512", "ES256K"]
    obls = [Obl("vlib.props.c01", "ecdsa_verify_split", {"alg": a}, "ECDSA R||S length gate and split, all signature contents", 900) for a in algs]
    meta = {
        "engine": "E1 CrossHair on the real jws/rfc7515/rfc7797 code with opaque base64/JSON, scripted primitive verdicts, fake native keys; "
                  "E2 pysym on ECAlgModel.verify",
        "functions": ["joserfc.jws.deserialize_compact", "validate_compact", "deserialize_json", "rfc7515.compact.extract_compact",
                      "verify_compact", "decode_header", "rfc7515.json.extract_general_json", "extract_flattened_json",
                      "verify_general_json", "verify_flattened_json", "verify_signature", "HeaderMember.headers", "jwk.guess_key",
                      "KeySet.get_by_kid", "JWSRegistry.get_alg", "JWSRegistry.check_header", "registry.check_crit_header",
                      "validate_registry_header", "check_supported_header", "HMACAlgModel.verify", "RSAAlgModel.verify",
                      "RSAPSSAlgModel.verify", "ECAlgModel.verify", "EdDSAAlgModel.verify", "rfc7797.compact.deserialize_compact",
                      "_extract_compact", "rfc7797.json.deserialize_json", "_extract_json", "rfc7797.registry._safe_b64_header",
                      "BaseKey.check_use", "get_op_key", "check_key_op", "JWSAlgModel.check_key_type", "rfc7518.util.decode_int"],
        "files": ["jws.py", "rfc7515/compact.py", "rfc7515/json.py", "rfc7515/model.py", "rfc7515/registry.py", "registry.py",
                  "rfc7518/jws_algs.py", "rfc8037/jws_eddsa.py", "rfc7797/compact.py", "rfc7797/json.py", "rfc7797/registry.py", "jwk.py", "_keys.py"],
        "bounds": {"signatures": "0..2", "kid strings": "<= 1 char", "alg values": "HS256, HS384, none, RS256, unknown name, int, null (+11 asymmetric names)",
                   "allow-lists": "None, [], 4 concrete lists", "key forms": "key, 2-key set, callable", "ECDSA signature length": "0..2*len+2, all contents"},
        "outside": ["soundness of the primitives' own verification (HMAC, RSA, ECDSA, EdDSA)", "characters of base64 segments (codecs are opaque here; C19 covers them)",
                    "more than 2 signatures; JSON unprotected headers that are not dicts (excluded by C16's declared-types premise)"],
        "stubs": ["base64.b64decode/urlsafe_b64encode (opaque table)", "json.loads/dumps (opaque, fresh copies)", "hmac.new / hmac.compare_digest (scripted verdict)",
                  "fake RSA/EC/Ed25519/Ed448/X25519 public keys: verify() = scripted verdict, records operands"],
        "assumptions": ["with opaque codecs the glue is parametric in the segment characters", "primitive contracts (see DESIGN.md §2.1)"],
    }
    return {"conds": conds, "obls": obls, "meta": meta}
