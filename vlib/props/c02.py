"""C02 — JWE decryption returns only authenticated plaintext (E1 adversarial + E2 CBC-HMAC kernel)."""
import z3
from vlib import pysym as P
from vlib.core import Cond, Obl

H = "c02_jwe.py"


def cbc_hmac_input(enc, n_aad, n_ct):
    """CBCHS2EncModel._hmac / decrypt: for all aad (n_aad octets), iv (16), ciphertext (n_ct), cek, tag contents:
    MAC key = first half of the CEK, MAC input = aad || iv || ct || uint64_be(8*|aad|), compared (whole received tag) against
    the first key_len octets of the MAC; a tag of another length never passes."""
    from joserfc.jwe import JWERegistry
    import hmac as _hmac
    model = JWERegistry.algorithms["enc"][enc]
    kl = model.key_len
    aad = P.SBytes([z3.BitVec("a%d" % i, 8) for i in range(n_aad)])
    iv = P.SBytes([z3.BitVec("i%d" % i, 8) for i in range(16)])
    ct = P.SBytes([z3.BitVec("c%d" % i, 8) for i in range(n_ct)])
    cek = P.SBytes([z3.BitVec("k%d" % i, 8) for i in range(2 * kl)])
    res = dict(paths=0, queries=0, unsat=0, sat=0, unknown=0, secs=0.0)
    fns = set()
    for tag_len in (kl, kl - 1, 0, kl + 1):
        tag = P.SBytes([z3.BitVec("t%d" % i, 8) for i in range(tag_len)])

        def path(it):
            try:
                out = it.call(model._hmac, ct, aad, iv, P.SBytes(cek.items[:kl]))
            except P.Raised:
                return False
            macs = it.ctx.log_of("hmac")
            if len(macs) != 1 or not isinstance(out, P.SBytes) or len(out) != kl:
                return False
            key, msg, dig, full = macs[0]
            want = P.SBytes(aad.items + iv.items + ct.items + [z3.BitVecVal(b, 8) for b in (8 * n_aad).to_bytes(8, "big")])
            g1 = z3.And(P.seq_eq(key, P.SBytes(cek.items[:kl])), P.seq_eq(msg, want), P.seq_eq(out, P.SBytes(full.items[:kl])),
                        z3.BoolVal(getattr(dig, "__name__", str(dig)).endswith(model.hash_alg.__name__.replace("openssl_", ""))))
            # decrypt: the comparison decides, and only the whole tag can match
            from joserfc.errors import DecodeError
            n0 = len(it.ctx.log)

            class Stop(Exception):
                pass

            def m_cipher(it_, args, kw):
                raise P.Raised(Stop())
            import joserfc.rfc7518.jwe_encs as E
            it.models[E.Cipher] = m_cipher
            it.models[E.AES] = m_cipher
            try:
                it.call(model.decrypt, ct, tag, cek, iv, aad)
                return False
            except P.Raised as r:
                cmps = [c for c in it.ctx.log[n0:] if c[0] == "compare_digest"]
                if isinstance(r.exc, DecodeError):
                    ok_reject = True
                    reached_cipher = False
                elif isinstance(r.exc, Stop):
                    ok_reject = False
                    reached_cipher = True
                else:
                    return False
            if len(cmps) != 1:
                return False
            a, b = cmps[0][1]
            macs2 = it.ctx.log_of("hmac")
            full2 = macs2[-1][3]
            ops = z3.Or(z3.And(P.seq_eq(a, P.SBytes(full2.items[:kl])), P.seq_eq(b, tag)), z3.And(P.seq_eq(b, P.SBytes(full2.items[:kl])), P.seq_eq(a, tag)))
            if reached_cipher:
                return z3.And(g1, ops, z3.BoolVal(tag_len == kl))
            return z3.And(g1, ops)

        r = P.explore(path, {"aad": aad, "iv": iv, "ct": ct, "cek": cek, "tag": tag})
        for k in ("paths", "queries", "unsat", "sat", "unknown"):
            res[k] += r.get(k, 0)
        res["secs"] += r.get("secs", 0)
        fns |= set(r.get("functions", []))
        if r["verdict"] != "confirmed":
            r["detail"] = "enc=%s tag_len=%d: %s" % (enc, tag_len, r.get("detail") or r.get("cex"))
            if r["verdict"] == "cex":
                r["replay"] = native_cbc_check(enc)
            return r
    res.update(verdict="confirmed", functions=sorted(fns), secs=round(res["secs"], 2),
               sample={"enc": enc, "aad_octets": n_aad, "ct_octets": n_ct, "goal": "MAC input = aad||iv||ct||AL, key = cek[:n], full-length compare"})
    return res


def native_cbc_check(enc):
    """replay for the CBC-HMAC kernel on the real code with real primitives: RFC 7518 B.x style known-answer from the independent
    implementation, plus truncated / extended tags."""
    from joserfc.jwe import JWERegistry
    from vlib import refjose as R
    model = JWERegistry.algorithms["enc"][enc]
    n = R.enc_cek_len(enc)
    cek = bytes(range(n))
    iv = bytes(range(16))
    for aad in (b"", b"a", b"header.aad"):
        ct, tag = R.content_encrypt(enc, cek, iv, aad, b"plaintext!")
        try:
            if model.decrypt(ct, tag, cek, iv, aad) != b"plaintext!":
                return {"violated": True, "key": "c02-cbc-kernel", "detail": "%s: wrong plaintext for a valid foreign ciphertext" % enc}
        except Exception as e:  # noqa
            return {"violated": True, "key": "c02-cbc-kernel", "detail": "%s rejects a valid RFC 7518 ciphertext (aad=%r): %s" % (enc, aad, type(e).__name__)}
        for bad in (tag[:-1], tag[:8], b"", tag + b"\x00"):
            try:
                model.decrypt(ct, bad, cek, iv, aad)
                return {"violated": True, "key": "c02-cbc-kernel", "detail": "%s accepts a tag of %d octets" % (enc, len(bad))}
            except Exception:  # noqa
                pass
    return {"violated": None, "detail": "kernel counterexample did not reproduce natively"}


def check_iv_lengths(enc):
    """JWEEncModel.check_iv: for every IV length 0..40 it raises unless 8*len == iv_size (lengths are concrete, contents symbolic)."""
    from joserfc.jwe import JWERegistry
    model = JWERegistry.algorithms["enc"][enc]
    res = dict(paths=0, queries=0, unsat=0, sat=0, unknown=0, secs=0.0)
    for n in range(0, 41):
        iv = P.SBytes([z3.BitVec("v%d" % i, 8) for i in range(n)])

        def path(it):
            try:
                it.call(model.check_iv, iv)
                return n * 8 == model.iv_size
            except P.Raised as r:
                return n * 8 != model.iv_size and isinstance(r.exc, ValueError)
        r = P.explore(path, {"iv": iv}, lambda cex: {"violated": True, "key": "c02-check-iv", "detail": "check_iv accepts/rejects wrongly at length %d" % n})
        for k in ("paths", "queries", "unsat", "sat", "unknown"):
            res[k] += r.get(k, 0)
        if r["verdict"] != "confirmed":
            return r
    res.update(verdict="confirmed", sample={"enc": enc, "lengths": "0..40"})
    return res


def plan(tier):
    q = tier == "quick"
    T = 300 if q else 1500
    names = ["compact_dir", "compact_kw", "compact_gcmkw", "compact_rsa", "compact_ecdh", "compact_ecdhkw", "compact_pbes2", "compact_1pu", "compact_chacha"]
    notes = {"compact_dir": "dir: every IV/tag length class, encrypted key present, zip, AEAD verdict",
             "compact_kw": "A128KW: unwrap verdict x recovered CEK length x AEAD verdict x zip",
             "compact_gcmkw": "A128GCMKW: header iv/tag operands", "compact_rsa": "RSA-OAEP: padding object, decrypt verdict",
             "compact_ecdh": "ECDH-ES direct (EC and OKP): epk invalid / other curve, non-empty encrypted key, KDF other-info",
             "compact_1pu": "ECDH-1PU direct and +A128KW (draft, registered explicitly): Z = Ze || Zs with the sender's key, tag in the KDF input, "
                            "sender key absent / on another curve, key wrapping mode only with CBC-HMAC",
             "compact_chacha": "draft content encryptions C20P / XC20P (direct and A128KW): nonce 96 / 192 bit, 128-bit tag, every IV/tag length class, zip",
             "compact_ecdhkw": "ECDH-ES+A128KW", "compact_pbes2": "PBES2-HS256+A128KW: salt, count, hash, wrap key"}
    conds = [Cond(H, n, "main", T, notes[n]) for n in names] + [
        Cond(H, "compact_witness", "witness", 120), Cond(H, "compact_reject_witness", "witness", 120), Cond(H, "compact_1pu_witness", "witness", 120), Cond(H, "compact_chacha_witness", "witness", 120),
        Cond(H, "general_json", "main", T * 2, "general JSON, 1..2 A128KW recipients: per-recipient unwrap verdicts, CEK equality/length, AAD member, verify_all_recipients"),
        Cond(H, "general_json_witness", "witness", 300),
        Cond(H, "flattened_json", "main", T, "flattened JSON: alg in protected / shared unprotected / per-recipient header, AAD member"),
    ]
    encs = ["A128CBC-HS256"] if q else ["A128CBC-HS256", "A192CBC-HS384", "A256CBC-HS512"]
    sizes = [(0, 0), (1, 16), (5, 32)] if q else [(a, c) for a in (0, 1, 2, 7, 8) for c in (0, 16, 32)]
    obls = [Obl("vlib.props.c02", "cbc_hmac_input", {"enc": e, "n_aad": a, "n_ct": c}, "CBC-HMAC MAC input / key split / full-length tag compare", 900)
            for e in encs for (a, c) in sizes]
    obls += [Obl("vlib.props.c02", "check_iv_lengths", {"enc": e}, "IV size gate", 300) for e in (["A128GCM", "A128CBC-HS256"] if q else
             ["A128GCM", "A192GCM", "A256GCM", "A128CBC-HS256", "A192CBC-HS384", "A256CBC-HS512"])]
    meta = {
        "engine": "E1 CrossHair on the real jwe/rfc7516/rfc7518 decryption code with opaque codecs, fake native keys, scripted unwrap/AEAD "
                  "verdicts; E2 pysym on CBCHS2EncModel._hmac/decrypt and check_iv",
        "functions": ["joserfc.jwe.decrypt_compact", "decrypt_json", "_attach_recipient_keys", "rfc7516.compact.extract_compact",
                      "rfc7516.json.extract_general_json", "extract_flattened_json", "rfc7516.message.perform_decrypt", "_perform_decrypt",
                      "decrypt_recipient", "Recipient.headers", "JWERegistry.check_header", "get_alg", "get_enc", "get_zip",
                      "JWEEncModel.check_iv", "CBCHS2EncModel.decrypt", "_hmac", "GCMEncModel.decrypt", "DirectAlgModel.compute_cek",
                      "AESAlgModel.decrypt_cek", "unwrap_cek", "AESGCMAlgModel.decrypt_cek", "RSAAlgModel.decrypt_cek",
                      "ECDHESAlgModel.decrypt_agreed_upon_key", "PBES2HSAlgModel.decrypt_cek", "compute_derived_key",
                      "derive_key_for_concat_kdf", "u32be_len_input", "ECKey.exchange_derive_key", "OKPKey.exchange_derive_key",
                      "ECBinding.import_public_key", "OKPBinding.import_public_key", "DeflateZipModel.decompress", "KeySet.get_by_kid"],
        "files": ["jwe.py", "rfc7516/message.py", "rfc7516/compact.py", "rfc7516/json.py", "rfc7516/models.py", "rfc7516/registry.py",
                  "rfc7518/jwe_algs.py", "rfc7518/jwe_encs.py", "rfc7518/derive_key.py", "rfc7518/ec_key.py", "rfc8037/okp_key.py"],
        "bounds": {"modes": "dir, A128KW, A128GCMKW, RSA-OAEP, ECDH-ES (P-256, X25519), ECDH-ES+A128KW, PBES2-HS256+A128KW",
                   "content encryptions": "A128GCM, A128CBC-HS256 (E2: CBC-HMAC for |aad| in the listed sizes, |ct| <= 32)",
                   "IV / tag / CEK length classes": "exact, shorter, longer, empty", "recipients": "1..2", "serializations": "compact, flattened, general"},
        "outside": ["AEAD / unwrap / RSA soundness and pyca's point validation (their verdicts and exceptions are modelled, not their decisions)",
                    "other key sizes of the same families (A192*, A256*), ECDH-1PU and the ChaCha20 encs in the JSON serializations",
                    "characters of base64 segments"],
        "stubs": ["Cipher/AES/GCM/CBC/PKCS7, aes_key_wrap/unwrap, PBKDF2HMAC, ConcatKDFHash (argument checks of the real classes reproduced)",
                  "EllipticCurvePublicNumbers / OKP from_public_bytes (valid point or ValueError)", "zlib (ideal codec)", "hmac", "opaque base64/json"],
        "assumptions": ["primitive contracts of DESIGN.md §2.1", "A-size-specific code paths are uniform in the key size (same classes, size is data)"],
    }
    return {"conds": conds, "obls": obls, "meta": meta}
