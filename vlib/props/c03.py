"""C03 — JWS sign-then-verify round trip for every algorithm and serialization (E1 ideal; E2 R||S codec)."""
import z3
from vlib import pysym as P
from vlib.core import Cond, Obl
from vlib import gen

BASE = "c03_roundtrip.py"
NAMES = ["HS256", "HS384", "HS512", "RS256", "RS384", "RS512", "PS256", "PS384", "PS512", "ES256", "ES384", "ES512", "ES256K", "EdDSA", "EdDSA/448"]


def ecdsa_sign_encoding(alg):
    """ECAlgModel.sign: for every (r, s) with 1 <= r, s < 2^bits the produced signature is exactly 2*ceil(bits/8) octets,
    R || S big-endian fixed width, and ECAlgModel.verify's split recovers (r, s) (i.e. leading-zero r/s round-trip)."""
    from joserfc.jws import JWSRegistry
    from cryptography.hazmat.primitives.asymmetric import utils as U
    model = JWSRegistry.algorithms[alg]
    crv, bits = {"ES256": ("P-256", 256), "ES384": ("P-384", 384), "ES512": ("P-521", 521), "ES256K": ("secp256k1", 256)}[alg]
    L = (bits + 7) // 8
    w = 8 * L + 8
    rb, sb = z3.BitVec("r", w), z3.BitVec("s", w)
    r, s = P.SInt.from_bv(rb), P.SInt.from_bv(sb)
    lim = z3.BitVecVal(1 << bits, w)
    pre = [z3.ULT(rb, lim), z3.ULT(sb, lim), z3.UGE(rb, 1), z3.UGE(sb, 1)]

    class OpKey:
        pass

    class Key:
        curve_name = crv
        curve_key_size = bits

        def get_op_key(self, op):
            return self.opk
    Key.get_op_key.__pysym_native__ = True

    def path(it):
        key = Key()
        key.opk = OpKey()
        seen = []

        def sign(msg, algo):
            seen.append(("sign", msg))
            return "DER-TOKEN"
        sign.__pysym_native__ = True

        def verify(der, msg, algo):
            seen.append(("verify", der, msg))
        verify.__pysym_native__ = True
        key.opk.sign, key.opk.verify = sign, verify
        it.models[U.decode_dss_signature] = lambda it_, a, k: (r, s)
        it.models[U.encode_dss_signature] = lambda it_, a, k: ("DER", a[0], a[1])
        try:
            sig = it.call(model.sign, b"msg", key)
        except P.Raised:
            return False
        if not isinstance(sig, P.SBytes) or len(sig) != 2 * L:
            return False
        be = z3.And(P.int_cmp("==", P.os2ip(sig.items[:L]), r), P.int_cmp("==", P.os2ip(sig.items[L:]), s))
        try:
            ok = it.call(model.verify, b"msg", sig, key)
        except P.Raised:
            return False
        v = [x for x in seen if x[0] == "verify"]
        if ok is not True or len(v) != 1:
            return False
        der = v[0][1]
        return z3.And(be, P.int_cmp("==", der[1], r), P.int_cmp("==", der[2], s))

    def replay(cex):
        from vlib.harness_loader import load
        # real keys whose signatures have r or s with leading zero octets are rare; replay natively on the codec with the model's r, s
        import joserfc.rfc7518.util as U2
        rr, ss = cex["r"], cex["s"]
        try:
            enc = U2.encode_int(rr, bits) + U2.encode_int(ss, bits)
            ok = len(enc) == 2 * L and U2.decode_int(enc[:L]) == rr and U2.decode_int(enc[L:]) == ss
        except Exception:  # noqa
            ok = False
        if ok:
            # the codec is fine natively: the defect is in sign/verify glue; reproduce with a real key via many signatures
            from vlib import refjose as R
            from joserfc import jws as J
            from joserfc.jwk import JWKRegistry
            jwk = R.test_key(crv)
            k = JWKRegistry.import_key(jwk)
            for i in range(600):
                t = J.serialize_compact({"alg": alg}, b"m%d" % i, k, algorithms=[alg])
                try:
                    J.deserialize_compact(t, JWKRegistry.import_key(R.public_jwk(jwk)), algorithms=[alg])
                    if not R.compact_verify(t.encode(), R.public_jwk(jwk))[0]:
                        return {"violated": True, "key": "c03-ecdsa-encoding", "detail": "independent verifier rejects %s" % t}
                except Exception as e:  # noqa
                    return {"violated": True, "key": "c03-ecdsa-encoding", "detail": "%s token does not verify: %s (%s)" % (alg, t, type(e).__name__)}
            return {"violated": None, "detail": "no real signature among 600 reproduces r=%d s=%d" % (rr, ss)}
        return {"violated": True, "key": "c03-ecdsa-encoding", "detail": "R||S encoding of r=%d, s=%d is not %d fixed-width octets that decode back" % (rr, ss, 2 * L)}

    return P.explore(path, {"r": r, "s": s}, replay, pre=pre)


def plan(tier):
    q = tier == "quick"
    T = 300 if q else 1500
    specs = [("roundtrip_layout", [(a,) for a in range(15)]), ("roundtrip_keys", [(a,) for a in range(15)]), ("roundtrip_b64", [(a,) for a in range(15)]),
             ("detach", [(a,) for a in (range(15) if not q else (0, 3, 6, 9, 11, 13, 14))]),
             ("roundtrip_text", [(a,) for a in (range(15) if not q else (0, 4, 10))])]
    path, names = gen.specialise(BASE, specs, "c03_gen.py")
    conds = [Cond(path, n, "main", T, "%s for %s" % (n.split("__")[0], NAMES[int(n.split("__")[1])])) for n in names]
    conds.append(Cond(BASE, "witness_fail", "witness", 120))
    obls = [Obl("vlib.props.c03", "ecdsa_sign_encoding", {"alg": a}, "ECDSA R||S fixed-width encoding for every (r, s)", 900)
            for a in ("ES256", "ES384", "ES512", "ES256K")]
    meta = {
        "engine": "E1 CrossHair on the real serialize/deserialize code in the IDEAL ice environment; E2 pysym on ECAlgModel.sign/verify + encode_int/decode_int",
        "functions": ["jws.serialize_compact", "serialize_json", "deserialize_compact", "deserialize_json", "detach_content", "rfc7515.compact.sign_compact",
                      "verify_compact", "extract_compact", "detach_compact_content", "rfc7515.json.sign_general_json", "sign_flattened_json", "__sign_member",
                      "verify_signature", "detach_json_content", "rfc7797.compact.serialize_compact", "deserialize_compact", "__is_urlsafe_characters",
                      "rfc7797.json.serialize_json", "deserialize_json", "HMAC/RSA/PSS/EC/EdDSA AlgModel.sign/verify", "jwk.guess_key",
                      "KeySet.pick_random_key", "get_by_kid", "set_kid", "rfc7518.util.encode_int", "decode_int"],
        "files": ["jws.py", "rfc7515/compact.py", "rfc7515/json.py", "rfc7515/model.py", "rfc7518/jws_algs.py", "rfc7518/util.py",
                  "rfc8037/jws_eddsa.py", "rfc7797/compact.py", "rfc7797/json.py", "jwk.py", "_keys.py", "util.py"],
        "bounds": {"algorithms": "14 + EdDSA over Ed448", "payload": "every octet string <= 2 octets / every str <= 2 chars (b64=false: regex decision symbolic)",
                   "serializations": "compact, flattened, general with 1..2 signatures", "key forms": "key, 3-key set of mixed types, callable",
                   "kid": "absent (random pick, symbolic index) / explicit, protected or unprotected", "ECDSA": "every r, s < 2^bits"},
        "outside": ["real signature primitives (ideal model)", "payloads longer than 2 octets", "non-UTF-8 bytes with b64=false (refused at serialization, open case)"],
        "stubs": ["ideal ice environment", "random.choice -> symbolic index"],
        "assumptions": ["ideal-primitive model: verify succeeds iff identical (family, key, parameters, message) were signed"],
    }
    return {"conds": conds, "obls": obls, "meta": meta}
