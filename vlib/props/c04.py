"""C04 — JWE encrypt-then-decrypt round trip for every alg, enc, zip and serialization (E1 ideal)."""
from vlib.core import Cond
from vlib import gen

BASE = "c04_roundtrip.py"


def plan(tier):
    q = tier == "quick"
    T = 300 if q else 1800
    if q:
        # quick: every alg with one enc per class, every enc with one alg per mode
        pairs = sorted(set([(a, (0, 3, 1, 4, 2, 5, 6, 7)[a % 8]) for a in range(21)] + [((3, 6, 7, 8, 1, 11, 14, 17)[e], e) for e in range(8)]
                           + [(18, 6), (20, 7)]))      # ECDH-1PU key wrapping with the ChaCha20 encs: must be refused
        two = [(a,) for a in (3, 6, 7, 8, 18)]
        single = [(a,) for a in (1, 3, 8, 11)]
        shared = [(a,) for a in (1, 3, 8, 11, 14)]
    else:
        # deep: every algorithm with one enc per class (CBC-HS, GCM, C20P) + XC20P, and every enc with three algorithms
        pairs = sorted(set([(a, e) for a in range(21) for e in (0, 3, 6, 7)] + [(a, e) for a in (3, 7, 14) for e in range(8)]))
        two = [(a,) for a in range(21)]
        single = [(a,) for a in range(17)]
        shared = [(a,) for a in range(17)]
    specs = [("roundtrip_layout", pairs), ("roundtrip_options", pairs), ("two_recipients", two), ("single_key_mixed", single), ("shared_alg_recipients", shared)]
    path, names = gen.specialise(BASE, specs, "c04_gen.py")
    conds = [Cond(path, n, "main", T, n) for n in names]
    conds.append(Cond(BASE, "witness", "witness", 300))
    meta = {
        "engine": "E1 CrossHair on the real encrypt/decrypt pipelines in the IDEAL ice environment (tables for AEAD/key wrap/RSA, opaque KDFs and ECDH)",
        "functions": ["jwe.encrypt_compact", "encrypt_json", "decrypt_compact", "decrypt_json", "_guess_sender_key", "rfc7516.message.perform_encrypt",
                      "pre_encrypt_recipients", "post_encrypt_recipients", "__prepare_recipient_algorithm", "__pre_encrypt_direct_mode",
                      "perform_decrypt", "_perform_decrypt", "decrypt_recipient", "represent_compact", "represent_general_json",
                      "represent_flattened_json", "extract_*", "Recipient.headers", "add_header", "every JWE alg model encrypt/decrypt side",
                      "CBCHS2EncModel.encrypt/decrypt", "GCMEncModel.encrypt/decrypt", "ChaCha20EncModel.encrypt/decrypt", "DeflateZipModel",
                      "ECDH1PUAlgModel._check_enc", "derive_key_for_concat_kdf", "JWEKeyAgreement.prepare_ephemeral_key", "KeySet.pick_random_key"],
        "files": ["jwe.py", "rfc7516/message.py", "rfc7516/compact.py", "rfc7516/json.py", "rfc7516/models.py", "rfc7516/registry.py",
                  "rfc7518/jwe_algs.py", "rfc7518/jwe_encs.py", "rfc7518/jwe_zips.py", "rfc7518/derive_key.py", "drafts/jwe_ecdh_1pu.py",
                  "drafts/jwe_chacha20.py"],
        "bounds": {"alg x enc": "%d pairs (quick) / 96 pairs (thorough)" % len(pairs), "curves": "P-256, P-384, P-521, secp256k1, X25519, X448",
                   "plaintext / AAD": "every octet string <= 2 octets, AAD absent or <= 2", "serializations": "compact, flattened, general (1..2 recipients of mixed algs)",
                   "header placement": "protected / shared unprotected / per-recipient", "key forms": "key, 3-key set (symbolic random pick)"},
        "outside": ["real AES/RSA/ECDH/DEFLATE behaviour (ideal tables): block-aligned vs unaligned plaintexts are indistinguishable here", "3-4 recipients", "single-key decryption of a multi-recipient token is covered for 2 recipients without ECDH-1PU (single_key_mixed)",
                    "plaintexts near the decompression limit (C17)"],
        "stubs": ["ideal ice environment", "random.choice -> symbolic index"],
        "assumptions": ["ideal-primitive model (DESIGN.md §2.1)"],
    }
    return {"conds": conds, "obls": [], "meta": meta, "deep_wall": 1500}
