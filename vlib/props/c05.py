"""C05 — only caller-allowed algorithms are used; default is the recommended set (E1)."""
from vlib.core import Cond

H = "c05_allow.py"
OPS = ["serialize_compact", "serialize_json", "deserialize_compact", "deserialize_json", "jwt_encode", "jwt_decode"]


def plan(tier):
    q = tier == "quick"
    T = 360 if q else 1800
    conds = [
        Cond(H, "jws_gate", "main", T, "JWSRegistry.get_alg / construct_registry: any name (str <= 7) x any allow-list (<= 3 names)"),
        Cond(H, "jwe_gate", "main", T, "JWERegistry.get_alg/get_enc/get_zip: any name (str <= 18) x any allow-list (<= 3 names) x location"),
        Cond(H, "gate_witness", "witness", 120),
        Cond(H, "history_jws", "main", T, "call with list L1, caller extends L1, then call with L2: verdict equals isolation; default registry unchanged"),
        Cond(H, "history_jwe", "main", T, "same for JWE registries"),
        Cond(H, "jws_ops_witness", "witness", 120),
    ] + [Cond(H, "jws_op_" + o, "main", T, "operation %s: a primitive is reached / a result returned only with an allowed alg; none never verifies" % o) for o in OPS]
    from vlib.props import c05_jwe
    conds += c05_jwe.conds(tier)
    meta = {
        "engine": "E1 CrossHair; registries run for real, JWS operations in the adversarial ice environment",
        "functions": ["JWSRegistry.__init__", "JWSRegistry.get_alg", "construct_registry", "JWERegistry.__init__", "JWERegistry.get_alg",
                      "get_enc", "get_zip", "_check_algorithm", "jws.serialize_compact", "serialize_json", "deserialize_compact",
                      "deserialize_json", "jwt.encode", "jwt.decode", "NoneAlgModel.verify"],
        "files": ["rfc7515/registry.py", "rfc7516/registry.py", "jws.py", "jwt.py", "rfc7518/jws_algs.py", "rfc7518/jwe_algs.py",
                  "rfc7518/jwe_encs.py", "rfc7518/jwe_zips.py"],
        "bounds": {"names": "every str up to 7 (JWS) / 18 (JWE) chars", "allow-lists": "None or <= 3 names (gates), <= 1 name (operations, histories)",
                   "histories": "2 calls + in-place extension of the first list"},
        "outside": ["open case: an empty list behaves like no list", "non-str names in allow-lists", "explicitly registered extra algorithms (drafts)",
                    "JWE operations are covered by the JWE conditions listed in this evidence file (c05_jwe)"],
        "stubs": ["adversarial ice environment for the operation harnesses (opaque codecs, scripted verdicts, fake native keys)"],
        "assumptions": ["the recommended table copied from the statement/docs is the intended default"],
    }
    return {"conds": conds, "obls": [], "meta": meta}
