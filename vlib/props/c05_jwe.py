def conds(tier):
    return []
