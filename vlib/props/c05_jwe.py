from vlib.core import Cond
from vlib import gen

OPS = ["encrypt_compact", "decrypt_compact", "encrypt_json", "decrypt_json", "jwt_encode", "jwt_decode"]


def conds(tier):
    T = 360 if tier == "quick" else 1800
    path, names = gen.specialise("c05_allow.py", [("jwe_ops", [(o,) for o in range(6)])], "c05_gen.py")
    out = [Cond(path, n, "main", T, "JWE operation %s: returns / reaches a primitive only if alg, enc and zip are admitted" % OPS[int(n.split("__")[1])]) for n in names]
    out.append(Cond("c05_allow.py", "jwe_ops_witness", "witness", 200))
    return out
