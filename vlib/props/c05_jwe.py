from vlib.core import Cond
from vlib import gen

OPS = ["encrypt_compact", "decrypt_compact", "encrypt_json", "decrypt_json", "jwt_encode", "jwt_decode"]


def conds(tier):
    T = 360 if tier == "quick" else 1800
    path, names = gen.specialise("c05_allow.py", [("jwe_ops", [(o, v) for o in range(6) for v in range(3)] if tier == "quick" else
                                                         [(o, v, f) for o in range(6) for v in range(3) for f in range((2, 6, 6)[v])])], "c05_gen.py")
    out = [Cond(path, n, "main", T, "JWE operation %s, symbolic %s name: returns / reaches a primitive only if alg, enc and zip are admitted"
                % (OPS[int(n.split("__")[1].split("_")[0])], ("alg", "enc", "zip")[int(n.split("__")[1].split("_")[1])])) for n in names]
    out.append(Cond("c05_allow.py", "jwe_second_recipient", "main", T, "general JSON, verify_all_recipients=False: an unlisted / unknown alg in ANY recipient makes the call fail"))
    out.append(Cond("c05_allow.py", "jwe_ops_witness", "witness", 200))
    return out
