"""C06 — operations succeed only with a key suited to the algorithm and operation (E1 with fake native keys; E2 for the
unsafe-secret warning)."""
import z3, warnings
from vlib import pysym as P
from vlib.core import Cond, Obl
from vlib import gen

BASE = "c06_keys.py"


def unsafe_secret_warning(marker_i, extra):
    """OctBinding.import_from_bytes: every byte string that begins with a PEM / OpenSSH marker (followed by `extra` arbitrary
    octets) triggers warnings.warn; the value is returned unchanged."""
    import joserfc.rfc7518.oct_key as O
    markers = [b"-----BEGIN ", b"---- BEGIN ", b"ssh-rsa ", b"ssh-dss ", b"ssh-ed25519 ", b"ecdsa-sha2-"]
    m = markers[marker_i]
    tail = P.SBytes([z3.BitVec("t%d" % i, 8) for i in range(extra)])
    value = P.SBytes(list(m) + tail.items)

    def path(it):
        seen = []

        def m_warn(it_, args, kw):
            seen.append(args)
            return None
        it.models[warnings.warn] = m_warn
        try:
            out = it.call(O.OctBinding.import_from_bytes, value)
        except P.Raised:
            return False
        return len(seen) == 1 and out is value

    def replay(cex):
        v = m + cex["tail"]
        with warnings.catch_warnings(record=True) as w:
            warnings.simplefilter("always")
            O.OctKey.import_key(v)
        return {"violated": len(w) == 0, "key": "c06-unsafe-secret", "detail": "OctKey.import_key(%r) gave %d warnings" % (v[:40], len(w))}

    return P.explore(path, {"tail": tail}, replay)


def plan(tier):
    q = tier == "quick"
    T = 300 if q else 2400
    if q:
        # quick: key kind (+ sizes) and use/key_ops are varied separately; thorough: the full product per algorithm
        specs = [("jws_kind", [(a,) for a in range(14)]), ("jws_use_ops", [(a,) for a in range(14)]),
                 ("jwe_kind", [(a,) for a in range(12)]), ("jwe_use_ops", [(a,) for a in range(12)]),
                 ("jwe_use_ops_json", [(a,) for a in (0, 1, 4, 7, 10, 11)]), ("jwe_kind_json", [(a,) for a in (0, 1, 7, 10)])]
    else:
        specs = [("jws_key", [(a,) for a in range(14)]), ("jwe_key", [(a,) for a in range(12)]),
                 ("jws_kind", [(a,) for a in range(14)]), ("jwe_kind", [(a,) for a in range(12)]),
                 ("jwe_use_ops_json", [(a,) for a in range(12)]), ("jwe_kind_json", [(a,) for a in range(12)])]
    path, names = gen.specialise(BASE, specs, "c06_gen.py")
    conds = [Cond(path, n, "main", T, n.replace("__", " for algorithm #")) for n in names]
    conds += [Cond(BASE, "jwe_ecdh_curves", "main", T, "ECDH-ES(+A128KW) decryption: recipient key curve x epk curve"),
              Cond(BASE, "jws_witness", "witness", 300), Cond(BASE, "jwe_witness", "witness", 300)]
    obls = [Obl("vlib.props.c06", "unsafe_secret_warning", {"marker_i": i, "extra": e}, "PEM/SSH text offered as oct secret is flagged", 300)
            for i in range(6) for e in ((0, 4) if q else (0, 1, 4, 16, 64))]
    meta = {
        "engine": "E1 CrossHair on the real operations with fake native keys (symbolic oct length and RSA modulus size); E2 pysym for OctBinding.import_from_bytes",
        "functions": ["JWSAlgModel.check_key_type", "KeyManagement.check_key_type", "ECAlgModel._check_key", "ECKey.exchange_derive_key",
                      "OKPKey.exchange_derive_key", "EdDSAAlgModel.sign/verify", "JWEKeyWrapping.check_op_key", "DirectAlgModel.compute_cek",
                      "RSAAlgModel.encrypt_cek/decrypt_cek", "AESAlgModel.*", "AESGCMAlgModel.*", "PBES2HSAlgModel.*", "ECDHESAlgModel.*",
                      "BaseKey.check_use", "check_key_op", "get_op_key", "jws.serialize_compact/deserialize_compact/serialize_json/deserialize_json",
                      "rfc7797.serialize_compact/deserialize_compact", "jwe.encrypt_compact/decrypt_compact", "jwe.encrypt_json/decrypt_json (key given, key attached with add_recipient, key from a callable)", "OctBinding.import_from_bytes"],
        "files": ["jws.py", "jwe.py", "rfc7515/model.py", "rfc7515/json.py", "rfc7516/models.py", "rfc7516/message.py", "rfc7517/models.py",
                  "rfc7518/jws_algs.py", "rfc7518/jwe_algs.py", "rfc7518/oct_key.py", "rfc7518/ec_key.py", "rfc8037/okp_key.py",
                  "rfc8037/jws_eddsa.py", "rfc7797/compact.py", "registry.py"],
        "bounds": {"JWS": "14 algorithms x 10 key kinds x private/public x use in {absent,sig,enc} x 11 key_ops sets x 6 operations",
                   "JWE": "12 algorithms x 10 key kinds x private/public x use x key_ops x oct length 0..64 (symbolic) x RSA size 512..8192 (symbolic) x 3 enc x encrypt/decrypt",
                   "unsafe secrets": "6 markers followed by up to 4 (thorough 64) arbitrary octets"},
        "outside": ["the key's declared alg member (not part of the statement)", "DER-encoded keys offered as secrets (no textual marker)",
                    "JWE JSON serializations are covered with the right key sizes only (jwe_*_json); sizes are varied over the compact form", "ECDH-1PU"],
        "stubs": ["fake native keys (arity/type behaviour of pyca reproduced), ice environment"],
        "assumptions": ["table `jws_row`/`jwe_row` is a faithful reading of the statement"],
    }
    return {"conds": conds, "obls": obls, "meta": meta}
