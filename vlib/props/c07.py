"""C07 — JWS octets on the wire are those of RFC 7515/7518/8037/8812/7797.
Decided by the same symbolic conditions as C01 (consumer: received octets, RFC parameter table, any header spelling) and C03
(producer: operands handed to the primitives, header/segment construction), plus the E2 codec kernels.  An interop run against
the independent implementation (refjose) in both directions is executed as translation validation of the stubs' contracts."""
import json, warnings
from vlib.core import Cond, Obl
from vlib import gen


def interop_jws():
    """concrete both-direction exchange with the independent implementation: every algorithm, headers spelt with whitespace /
    reordered members / escapes, compact and flattened JSON, b64=false"""
    warnings.simplefilter("ignore")
    from vlib import refjose as R
    from joserfc import jws
    from joserfc.jwk import JWKRegistry
    from joserfc.rfc7797 import serialize_compact as s7797, deserialize_compact as d7797
    algs = {"HS256": "oct32", "HS384": "oct48", "HS512": "oct64", "RS256": "RSA2048", "RS384": "RSA2048", "RS512": "RSA2048", "PS256": "RSA2048",
            "PS384": "RSA2048", "PS512": "RSA2048", "ES256": "P-256", "ES384": "P-384", "ES512": "P-521", "ES256K": "secp256k1", "EdDSA": "Ed25519", "EdDSA/448": "Ed448"}
    n, bad = 0, []
    for name, kk in algs.items():
        alg = name.split("/")[0]
        jwk = R.test_key(kk)
        priv, pub = JWKRegistry.import_key(jwk), JWKRegistry.import_key(R.public_jwk(jwk))
        for payload in (b"", b"\x00\xff.bin", "päyload".encode()):
            # joserfc -> independent verifier (given only the exported public JWK)
            exported = pub.as_dict(private=False) if jwk["kty"] != "oct" else jwk
            t = jws.serialize_compact({"alg": alg, "kid": "k"}, payload, priv, algorithms=[alg])
            ok, h, p = R.compact_verify(t.encode(), exported)
            n += 1
            if not ok or p != payload:
                bad.append("joserfc->ref %s payload=%r" % (name, payload))
            fj = jws.serialize_json({"protected": {"alg": alg}, "header": {"kid": "k"}}, payload, priv, algorithms=[alg])
            ok2, _ = R.json_signature_verify(fj["protected"], fj.get("header"), fj["payload"].encode(), fj["signature"], exported)
            n += 1
            if not ok2:
                bad.append("joserfc->ref flattened %s" % name)
            # independent signer with odd header spellings -> joserfc
            for text in (b'{ "alg" : "%s" ,\r\n "typ":"J\\u0057T" }' % alg.encode(), b'{"typ":"JWT","alg":"%s"}' % alg.encode(), b'{"alg":"%s","cty":"a\\/b"}' % alg.encode(),
                         b'{"alg":"%s","kid":"cl\xc3\xa9-\xe6\x9d\xb1\xe4\xba\xac"}' % alg.encode()):      # raw UTF-8 (RFC 7515: the header is UTF-8 JSON)
                hdr = json.loads(text)
                t2 = R.compact_sign(hdr, payload, jwk, header_text=text)
                n += 1
                try:
                    o = jws.deserialize_compact(t2, pub, algorithms=[alg])
                    if o.payload != payload or o.protected != hdr:
                        bad.append("ref->joserfc %s: payload/header differ" % name)
                except Exception as e:  # noqa
                    bad.append("ref->joserfc %s rejected (%s) header=%r" % (name, type(e).__name__, text))
                h, p, s = t2.split(".")
                n += 1
                try:
                    o = jws.deserialize_json({"payload": p, "protected": h, "signature": s}, pub, algorithms=[alg])
                    if o.payload != payload:
                        bad.append("ref->joserfc flattened %s: payload differs" % name)
                except Exception as e:  # noqa
                    bad.append("ref->joserfc flattened %s rejected (%s) header=%r" % (name, type(e).__name__, text))
        # unencoded payload
        t3 = s7797({"alg": alg, "b64": False, "crit": ["b64"]}, "url-safe_payload~", priv, algorithms=[alg])
        ok, h, p = R.compact_verify(t3.encode(), R.public_jwk(jwk) if jwk["kty"] != "oct" else jwk)
        n += 1
        if not ok or p != b"url-safe_payload~":
            bad.append("b64=false joserfc->ref %s" % name)
        t4 = R.compact_sign({"alg": alg, "b64": False, "crit": ["b64"]}, b"x_y", jwk)
        n += 1
        try:
            if d7797(t4, pub, algorithms=[alg]).payload != b"x_y":
                bad.append("b64=false ref->joserfc %s payload" % name)
        except Exception as e:  # noqa
            bad.append("b64=false ref->joserfc %s rejected %s" % (name, type(e).__name__))
    r = dict(paths=0, queries=0, unsat=0, sat=0, unknown=0, secs=0, concrete_validations=n, sample={"exchanges": n, "disagreements": len(bad)})
    if bad:
        r.update(verdict="cex", cex=bad[:5], replay={"violated": True, "key": "c07-interop", "detail": "; ".join(bad[:4])}, replays=1)
    else:
        r.update(verdict="confirmed")
    return r


def plan(tier):
    q = tier == "quick"
    T = 300 if q else 1500
    p3, n3 = gen.specialise("c03_roundtrip.py", [("roundtrip_layout", [(a,) for a in range(15)]), ("roundtrip_keys", [(a,) for a in range(15)]), ("roundtrip_b64", [(a,) for a in ((0, 4, 9, 13) if q else range(15))])], "c07_gen3.py")
    conds = [Cond(p3, n, "main", T, "producer: signing input = ASCII(b64(header).b64(payload)) / raw payload for b64=false; key octets; RFC parameter table (%s)" % n) for n in n3]
    conds += [Cond("c01_jws.py", "compact_asym", "main", T * 2, "consumer: RSA/PSS/ECDSA/EdDSA parameter objects equal the RFC 7518/8037/8812 table; fixed-length R||S"),
              Cond("c01_jws.py", "compact_alg_allow", "main", T, "consumer: the signing input is the RECEIVED header segment (any JSON spelling) '.' received payload segment"),
              Cond("c01_jws.py", "twostep_compact", "main", T, "consumer, two-step API: the signing input is that of the token being validated, not of the last one parsed"),
              Cond("c01_jws.py", "general_json_kf0", "main", T * 2, "consumer, JSON serialization: signing input uses the received protected member"),
              Cond("c01_jws.py", "rfc7797_compact", "main", T, "consumer, b64=false: signing input is header '.' raw payload"),
              Cond("c03_roundtrip.py", "witness_fail", "witness", 120)]
    obls = [Obl("vlib.props.c03", "ecdsa_sign_encoding", {"alg": a}, "R||S fixed-width big-endian for all r, s", 900) for a in ("ES256", "ES384", "ES512", "ES256K")]
    obls += [Obl("vlib.props.c01", "ecdsa_verify_split", {"alg": a}, "R||S split on verification", 900) for a in (("ES256", "ES512") if q else ("ES256", "ES384", "ES512", "ES256K"))]
    obls += [Obl("vlib.props.c19", "json_codec", {"n": n}, "json_b64encode = b64url(compact ASCII JSON)", 300) for n in (0, 1, 5)]
    obls += [Obl("vlib.props.c19", "roundtrip", {"n": n}, "base64url", 300) for n in (0, 1, 2, 3, 8)]
    obls += [Obl("vlib.props.c11", "ec_export", {"crv": c, "private": False}, "exported public JWK an independent verifier can use", 900) for c in (("P-256", "P-521") if q else ("P-256", "P-384", "P-521", "secp256k1"))]
    obls += [Obl("vlib.props.c11", "rsa_export", {"private": False}, "RSA n, e", 600), Obl("vlib.props.c11", "okp_export", {"crv": "Ed25519", "private": False}, "OKP x", 600)]
    obls += [Obl("vlib.props.c07", "interop_jws", {}, "translation validation: both directions against the independent implementation", 900)]
    meta = {
        "engine": "E1 conditions of C01/C03 (operands of the primitives vs the RFC table) + E2 codec kernels; concrete interop with an independent RFC implementation as translation validation",
        "functions": ["rfc7515.compact.sign_compact", "verify_compact", "rfc7515.json.__sign_member", "verify_signature", "rfc7797.compact/json", "rfc7518.jws_algs (all models)",
                      "rfc8037.jws_eddsa", "rfc8812", "rfc7518.util.encode_int/decode_int", "util.json_b64encode/urlsafe_b64encode", "EC/RSA/OKP export_public_key"],
        "files": ["rfc7515/compact.py", "rfc7515/json.py", "rfc7518/jws_algs.py", "rfc7518/util.py", "rfc8037/jws_eddsa.py", "rfc8812/__init__.py", "rfc7797/compact.py",
                  "rfc7797/json.py", "util.py", "rfc7518/rsa_key.py", "rfc7518/ec_key.py", "rfc8037/okp_key.py"],
        "bounds": {"see": "C01 / C03 / C19 / C11 bounds for the shared conditions", "interop": "15 algorithms x 3 payloads x 3 header spellings x compact/flattened, b64=false"},
        "outside": ["that pyca implements RSASSA-PSS / ECDSA / EdDSA as the RFCs say", "published RFC example tokens (they are in the repository's own test suite)"],
        "stubs": ["as in C01 / C03"],
        "assumptions": ["refjose (vlib/refjose.py) is a faithful independent reading of the RFCs"],
    }
    return {"conds": conds, "obls": obls, "meta": meta}
