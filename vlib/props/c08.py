"""C08 — JWE octets on the wire are those of RFC 7516/7518 and the implemented drafts.
Consumer conditions of C02 (AAD = received segment, RFC operand tables), producer conformance of C04 (every operand handed to
a primitive while encrypting), E2 kernels (Concat-KDF other-info, CBC-HMAC, DEFLATE framing), and a concrete interop run."""
import json, warnings, struct, z3
from vlib import pysym as P
from vlib.core import Cond, Obl
from vlib import gen


def concat_kdf_info(mode, apu_len, apv_len, tag_len):
    """derive_key_for_concat_kdf: for all PartyU/PartyV octets (given as base64url text in the header) and tag octets:
    other-info = len32||AlgorithmID || len32||PartyUInfo || len32||PartyVInfo || uint32(keydatalen) [|| len32||tag],
    AlgorithmID = enc in direct mode / alg with key wrapping, SHA-256, output length keydatalen/8."""
    from joserfc.rfc7518 import derive_key as D
    direct = mode == "direct"
    alg, enc = ("ECDH-ES", "A128GCM") if direct else ("ECDH-ES+A192KW", "A256GCM")
    cek_size, key_size = (128, None) if direct else (256, 192)
    bits = cek_size if direct else key_size
    apu = P.SBytes([z3.BitVec("u%d" % i, 8) for i in range(max(apu_len, 0))])
    apv = P.SBytes([z3.BitVec("v%d" % i, 8) for i in range(max(apv_len, 0))])
    tag = P.SBytes([z3.BitVec("t%d" % i, 8) for i in range(max(tag_len, 0))])
    shared = P.SBytes([z3.BitVec("z%d" % i, 8) for i in range(4)])

    def b64text(b):
        return P.SBytes(P._b64encode_with(b, P.URL).items[:(4 * len(b) + 2) // 3], True)
    header = {"alg": alg, "enc": enc}
    if apu_len >= 0:
        header["apu"] = b64text(apu)
    if apv_len >= 0:
        header["apv"] = b64text(apv)

    def lp(items):
        return [z3.BitVecVal(b, 8) for b in struct.pack(">I", len(items))] + list(items)

    def path(it):
        seen = []

        class KDF:
            def __init__(self, rec):
                self.rec = rec

            def derive(self, z):
                self.rec.append(z)
                return "DERIVED"
        KDF.derive.__pysym_native__ = True

        def m_kdf(it_, args, kw):
            rec = [kw.get("algorithm", args[0] if args else None), kw.get("length"), kw.get("otherinfo")]
            seen.append(rec)
            return KDF(rec)
        it.models[D.ConcatKDFHash] = m_kdf
        try:
            out = it.call(D.derive_key_for_concat_kdf, shared, header, cek_size, key_size, tag if tag_len >= 0 else None)
        except P.Raised:
            return False
        if out != "DERIVED" or len(seen) != 1:
            return False
        algo, length, info, z = seen[0]
        if getattr(algo, "name", None) != "sha256" or length != bits // 8 or z is not shared:
            return False
        name = (enc if direct else alg).encode()
        want = lp([z3.BitVecVal(b, 8) for b in name]) + lp(apu.items if apu_len > 0 else []) + lp(apv.items if apv_len > 0 else []) + \
            [z3.BitVecVal(b, 8) for b in struct.pack(">I", bits)]
        if tag_len > 0:
            want += lp(tag.items)
        return P.seq_eq(P.conc_seq(info), P.SBytes(want))

    def replay(cex):
        from vlib import refjose as R
        u, v, t = cex["apu"], cex["apv"], cex["tag"]
        h = {"alg": alg, "enc": enc}
        if apu_len >= 0:
            h["apu"] = R.b64e(u)
        if apv_len >= 0:
            h["apv"] = R.b64e(v)
        got = D.derive_key_for_concat_kdf(b"zzzz", h, cek_size, key_size, t if tag_len >= 0 else None)
        want = R.concat_kdf(b"zzzz", enc if direct else alg, bits, u, v, t if tag_len > 0 else None)
        return {"violated": got != want, "key": "c08-concat-kdf", "detail": "Concat KDF output differs from RFC 7518 4.6.2 for apu=%r apv=%r tag=%r" % (u, v, t)}

    return P.explore(path, {"apu": apu, "apv": apv, "tag": tag}, replay)


def interop_jwe():
    """concrete both-direction exchange with the independent implementation for every RFC alg x enc, zip, apu/apv, AAD, odd header spellings"""
    warnings.simplefilter("ignore")
    from vlib import refjose as R
    from joserfc import jwe
    from joserfc.jwk import JWKRegistry
    from joserfc.drafts.jwe_chacha20 import register_chaha20_poly1305
    register_chaha20_poly1305()          # C20P / XC20P (the independent side: pyca ChaCha20-Poly1305 + a pure-Python HChaCha20)
    algs = {"dir": None, "A128KW": "oct16", "A192KW": "oct24", "A256KW": "oct32", "A128GCMKW": "oct16", "A192GCMKW": "oct24", "A256GCMKW": "oct32",
            "RSA1_5": "RSA2048", "RSA-OAEP": "RSA2048", "RSA-OAEP-256": "RSA2048", "ECDH-ES": "P-256", "ECDH-ES+A128KW": "P-384", "ECDH-ES+A192KW": "X25519",
            "ECDH-ES+A256KW": "P-521", "PBES2-HS256+A128KW": "oct24", "PBES2-HS384+A192KW": "oct24", "PBES2-HS512+A256KW": "oct24"}
    n, bad = 0, []
    for alg, kk in algs.items():
        for enc in R.ENC:
            k = kk or "oct%d" % R.enc_cek_len(enc)
            jwk = R.test_key(k)
            key = JWKRegistry.import_key(jwk)
            pubj = R.public_jwk(jwk) if jwk["kty"] != "oct" else jwk
            for zipped, pt in ((False, b""), (True, b"hello " * 20), (False, bytes(range(33)))):
                hdr = {"alg": alg, "enc": enc}
                if zipped:
                    hdr["zip"] = "DEF"
                if alg.startswith("ECDH"):
                    hdr["apu"], hdr["apv"] = R.b64e(b"Alice"), R.b64e(b"Bob")
                n += 1
                try:
                    t = jwe.encrypt_compact(dict(hdr), pt, JWKRegistry.import_key(pubj), algorithms=[alg, enc, "DEF"])
                    got, _ = R.compact_decrypt(t.encode(), jwk)
                    if got != pt:
                        bad.append("joserfc->ref %s %s: plaintext differs" % (alg, enc))
                except Exception as e:  # noqa
                    bad.append("joserfc->ref %s %s zip=%s: %s %s" % (alg, enc, zipped, type(e).__name__, e))
                n += 1
                try:
                    add, ek, cek = R.key_manage(alg, enc, pubj, apu=b"Alice" if alg.startswith("ECDH") else None, apv=b"Bob" if alg.startswith("ECDH") else None)
                    h2 = {"alg": alg, "enc": enc, **({"zip": "DEF"} if zipped else {}), **add}
                    t2 = R.compact_encrypt(h2, pt, cek, ek, bytes(range({"gcm": 12, "cbc": 16}.get(R.ENC[enc][0], R.ENC[enc][2]))), header_text=json.dumps(h2, indent=2).encode())
                    o = jwe.decrypt_compact(t2, key, algorithms=[alg, enc, "DEF"])
                    if o.plaintext != pt:
                        bad.append("ref->joserfc %s %s: plaintext differs" % (alg, enc))
                    # JSON serialization with AAD
                    h, ekb, iv, ct, tg = t2.split(".")
                    aad = R.b64e(b"extra")
                    ct2, tag2 = R.content_encrypt(enc, cek, R.b64d(iv), (h + "." + aad).encode(), (__import__("zlib").compress(pt)[2:-4] if zipped else pt))
                    val = {"protected": h, "iv": iv, "ciphertext": R.b64e(ct2), "tag": R.b64e(tag2), "aad": aad}
                    if ekb:
                        val["encrypted_key"] = ekb
                    n += 1
                    o2 = jwe.decrypt_json(val, key, algorithms=[alg, enc, "DEF"])
                    if o2.plaintext != pt:
                        bad.append("ref->joserfc JSON+AAD %s %s: plaintext differs" % (alg, enc))
                except Exception as e:  # noqa
                    bad.append("ref->joserfc %s %s zip=%s: %s %s" % (alg, enc, zipped, type(e).__name__, e))
    r = dict(paths=0, queries=0, unsat=0, sat=0, unknown=0, secs=0, concrete_validations=n, sample={"exchanges": n, "disagreements": len(bad)})
    if bad:
        r.update(verdict="cex", cex=bad[:5], replay={"violated": True, "key": "c08-interop", "detail": "; ".join(bad[:4])}, replays=1)
    else:
        r.update(verdict="confirmed")
    return r


def plan(tier):
    q = tier == "quick"
    T = 300 if q else 1800
    if q:
        pairs = sorted(set([(a, (1, 4, 2, 5, 0, 3, 7, 6)[a % 8]) for a in range(21)] + [((5, 0, 9, 10, 2, 12, 15, 19)[e], e) for e in range(8)]))
    else:
        # deep: every algorithm with one enc per class (CBC-HS, GCM, C20P) + XC20P, and every enc with three algorithms
        pairs = sorted(set([(a, e) for a in range(21) for e in (0, 3, 6, 7)] + [(a, e) for a in (3, 7, 14) for e in range(8)]))
    p4, n4 = gen.specialise("c04_roundtrip.py", [("roundtrip_layout", pairs), ("roundtrip_options", pairs)], "c08_gen4.py")
    conds = [Cond(p4, n, "main", T, "producer conformance: AAD, AL, key split, tag truncation, RSA padding, GCM-KW iv/tag, PBES2 salt/count, Concat-KDF Z and other-info (1PU: Ze||Zs, tag), raw DEFLATE (%s)" % n) for n in n4]
    conds += [Cond("c02_jwe.py", n, "main", T, "consumer: " + n) for n in ("compact_dir", "compact_kw", "compact_gcmkw", "compact_rsa", "compact_ecdh", "compact_ecdhkw", "compact_pbes2", "compact_1pu", "compact_chacha", "flattened_json")]
    conds += [Cond("c04_roundtrip.py", "witness", "witness", 300)]
    sizes = [(-1, -1, -1), (0, 0, -1), (1, 4, -1), (3, 2, 4)] if q else [(a, b, t) for a in (-1, 0, 1, 3, 4) for b in (-1, 0, 2, 4) for t in (-1, 0, 4)]
    obls = [Obl("vlib.props.c08", "concat_kdf_info", {"mode": m, "apu_len": a, "apv_len": b, "tag_len": t}, "Concat KDF other-info layout", 600)
            for m in ("direct", "kw") for (a, b, t) in sizes]
    obls += [Obl("vlib.props.c02", "cbc_hmac_input", {"enc": e, "n_aad": a, "n_ct": c}, "CBC-HMAC AL / key split / tag truncation", 900)
             for e in (("A128CBC-HS256",) if q else ("A128CBC-HS256", "A192CBC-HS384", "A256CBC-HS512")) for (a, c) in ((0, 0), (5, 32))]
    obls += [Obl("vlib.props.c17", "compress_framing", {"n": n}, "raw DEFLATE framing", 300) for n in (0, 1, 4)]
    obls += [Obl("vlib.props.c08", "interop_jwe", {}, "translation validation against the independent implementation", 1800)]
    meta = {
        "engine": "E1 conditions of C02 (consumer) and C04 (producer conformance of every primitive operand); E2 kernels; concrete interop as translation validation",
        "functions": ["rfc7516.message.perform_encrypt", "_perform_decrypt", "pre/post_encrypt_recipients", "decrypt_recipient", "rfc7518.jwe_algs (all models)",
                      "rfc7518.jwe_encs (CBC-HS, GCM)", "drafts.jwe_chacha20", "drafts.jwe_ecdh_1pu", "rfc7518.derive_key.derive_key_for_concat_kdf", "u32be_len_input",
                      "rfc7518.jwe_zips.DeflateZipModel", "rfc7516.compact/json represent_* extract_*"],
        "files": ["rfc7516/message.py", "rfc7516/compact.py", "rfc7516/json.py", "rfc7518/jwe_algs.py", "rfc7518/jwe_encs.py", "rfc7518/jwe_zips.py",
                  "rfc7518/derive_key.py", "rfc7518/util.py", "drafts/jwe_ecdh_1pu.py", "drafts/jwe_chacha20.py", "util.py"],
        "bounds": {"alg x enc pairs (producer)": len(pairs), "Concat KDF": "PartyU/PartyV/tag octets of the listed lengths, absent or empty", "see": "C02 / C04 bounds"},
        "outside": ["RFC 3394 / RSA / AES-GCM / PBKDF2 / ConcatKDF primitives themselves (pyca)", "the JSON text of the header (opaque)"],
        "stubs": ["as in C02 / C04"],
        "assumptions": ["refjose is a faithful independent reading of RFC 7516/7518"],
    }
    return {"conds": conds, "obls": obls, "meta": meta, "deep_wall": 1500}
