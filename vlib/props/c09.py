"""C09 — JWT encode/decode is faithful and yields only JSON-object claims (E1 ideal + adversarial; E2 for NumericDate conversion)."""
import z3, json, calendar, datetime
from vlib import pysym as P
from vlib.core import Cond, Obl
from vlib import gen

BASE = "c09_jwt.py"


class STimeTuple:
    def __init__(self, kind, dt):
        self.kind, self.dt = kind, dt


class SDateTime:
    """abstract datetime: `instant` = whole seconds since the epoch of the moment it denotes (a naive value denotes its wall-clock
    fields read as UTC, as joserfc documents); `offset` = UTC offset in minutes of an aware value."""
    __pysym_datetime__ = True

    def __init__(self, instant, offset, naive):
        self.instant, self.offset, self.naive = instant, offset, naive

    def utctimetuple(self):
        return STimeTuple("utc", self)

    def timetuple(self):
        return STimeTuple("wall", self)

    def utcoffset(self):
        raise P.Unsupported("utcoffset arithmetic on an abstract datetime")

    def timestamp(self):
        if self.naive:
            raise P.Unsupported("timestamp() of a naive datetime depends on the process time zone")
        return P.SInt(self.instant)


def m_timegm(it, args, kw):
    t = args[0]
    if not isinstance(t, STimeTuple):
        raise P.Unsupported("timegm of %r" % (t,))
    if t.kind == "utc" or t.dt.naive:
        return P.SInt(t.dt.instant)
    return P.SInt(t.dt.instant + 60 * t.dt.offset)        # wall-clock fields of an aware value read as if they were UTC


def numeric_date(claim, naive):
    """convert_claims: a datetime exp/nbf/iat becomes floor(seconds since the epoch of the instant); other claims untouched."""
    from joserfc.rfc7519 import claims as C
    inst, off = z3.Int("instant"), z3.Int("offset")
    dt = SDateTime(inst, off, naive)
    pre = [inst >= 0, inst < 2 ** 33, off > -1440, off < 1440]

    def m_isinstance(it, args, kw):
        v, t = args
        ts = t if isinstance(t, tuple) else (t,)
        if isinstance(v, SDateTime):
            return datetime.datetime in ts or datetime.date in ts or object in ts
        return P.m_isinstance(it, args, kw)

    def path(it):
        seen = []

        def m_dumps(it_, args, kw):
            seen.append((args[0], kw))
            return "JSONTEXT"
        it.models[json.dumps] = m_dumps
        it.models[calendar.timegm] = m_timegm
        import builtins
        it.models[builtins.isinstance] = m_isinstance
        claims = {"sub": "x", claim: dt, "other": 5}
        try:
            out = it.call(C.convert_claims, claims)
        except P.Raised:
            return False
        if out != b"JSONTEXT" or len(seen) != 1:
            return False
        d, kw = seen[0]
        if kw.get("ensure_ascii") is not False or kw.get("separators") != (",", ":"):
            return False
        v = d.get(claim)
        if d.get("sub") != "x" or d.get("other") != 5 or set(d) != {"sub", claim, "other"}:
            return False
        if isinstance(v, int):
            return False
        if not isinstance(v, P.SInt):
            return False
        return v.e == inst

    def replay(cex):
        i, o = cex["instant"], cex["offset"]
        if naive:
            d = datetime.datetime(1970, 1, 1) + datetime.timedelta(seconds=i)
            want = i
        else:
            tz = datetime.timezone(datetime.timedelta(minutes=o))
            d = datetime.datetime.fromtimestamp(i, tz)
            want = i
        cl = {claim: d}
        out = json.loads(C.convert_claims(cl))
        return {"violated": out.get(claim) != want, "key": "c09-numericdate", "detail": "convert_claims({%r: %r}) -> %r, expected %d" % (claim, d, out.get(claim), want)}

    return P.explore(path, {"instant": P.SInt(inst), "offset": P.SInt(off)}, replay, pre=pre)


def plan(tier):
    q = tier == "quick"
    T = 300 if q else 1500
    kinds = list(range(11))
    specs = [("encode_decode", [(t, k) for t in range(4) for k in (kinds if not q else (0, 3, 5, 9))]), ("decode_adversarial", [(t, k) for t in range(4) for k in (kinds if not q else (0, 2, 3, 4, 8, 9))])]
    path, names = gen.specialise(BASE, specs, "c09_gen.py")
    conds = [Cond(path, n, "main", T, n) for n in names] + [Cond(BASE, "witness", "witness", 120)]
    obls = [Obl("vlib.props.c09", "numeric_date", {"claim": c, "naive": nv}, "datetime -> NumericDate for every instant and UTC offset", 300)
            for c in ("exp", "nbf", "iat") for nv in (True, False)]
    meta = {
        "engine": "E1 CrossHair on jwt.encode/decode over the JWS and JWE transports (ideal round trip, adversarial decode); E2 pysym on convert_claims with an abstract datetime",
        "functions": ["jwt.encode", "jwt.decode", "_decode_jws", "_decode_jwe", "rfc7519.claims.convert_claims", "Token.__init__", "+ the transports of C03/C04"],
        "files": ["jwt.py", "rfc7519/claims.py", "jws.py", "jwe.py"],
        "bounds": {"transports": "HS256, ES256 (JWS); A128KW+A128GCM, ECDH-ES+A128CBC-HS256 (JWE)", "header": "typ absent / arbitrary str <= 2 / 'JWT', extra member",
                   "claims": "one claim of every JSON kind + optional nested object with non-ASCII text", "decoded payload": "every JSON kind, not-JSON, undecodable octets, too deeply nested",
                   "datetime": "every instant 0 <= t < 2^33 s, every UTC offset -1439..1439 min or naive"},
        "outside": ["fidelity of json.dumps/json.loads themselves (C accelerator)", "floats in claims", "microsecond component (dropped by utctimetuple)"],
        "stubs": ["ice environment; json opaque; calendar.timegm / datetime methods modelled on an abstract datetime (E2)"],
        "assumptions": ["abstract datetime model: utctimetuple() = fields of the instant, timetuple() = wall-clock fields"],
    }
    return {"conds": conds, "obls": obls, "meta": meta}
