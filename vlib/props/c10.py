"""C10 — claims validation accepts exactly the claim sets that satisfy the request.
E1: CrossHair on the real ClaimsRegistry/JWTClaimsRegistry (no stubs).  E2: exp/nbf/iat with IEEE-754 float values."""
import z3, math
from vlib import pysym as P
from vlib.core import Cond, Obl

H = "c10_claims.py"


def float_time(which):
    """for all float64 v (incl. NaN, +-inf, -0.0), all ints now, leeway >= 0:
    validate_<claim>(v) returns  =>  v is a number and (exp: v >= now-leeway | nbf/iat: v <= now+leeway);
    v strictly outside the window or NaN => the matching error class."""
    from joserfc.rfc7519.registry import JWTClaimsRegistry
    from joserfc.errors import ExpiredTokenError, InvalidTokenError, InvalidClaimError
    name = ("exp", "nbf", "iat")[which]
    v = P.SFloat(z3.FP("v", z3.Float64()))
    now, leeway = P.SInt(z3.Int("now")), P.SInt(z3.Int("leeway"))
    B = 2 ** 62
    pre = [leeway.e >= 0, now.e > -B, now.e < B, leeway.e < B]

    def path(it):
        reg = JWTClaimsRegistry.__new__(JWTClaimsRegistry)
        reg.now, reg.leeway, reg.options, reg.essential_keys = now, leeway, {}, set()
        try:
            it.call(getattr(reg, "validate_" + name), v)
            out = "ok"
        except P.Raised as r:
            out = type(r.exc)
        nan = z3.fpIsNaN(v.e)
        if name == "exp":
            inside = P.float_cmp(">=", v, P.SInt(now.e - leeway.e))
            strictly_out = P.float_cmp("<", v, P.SInt(now.e - leeway.e))
            err = ExpiredTokenError
        else:
            inside = P.float_cmp("<=", v, P.SInt(now.e + leeway.e))
            strictly_out = P.float_cmp(">", v, P.SInt(now.e + leeway.e))
            err = InvalidTokenError
        if out == "ok":
            return (z3.And(z3.Not(nan), inside), "accepted")
        if out is err:
            return (z3.And(z3.Not(nan), strictly_out), "window error")
        if out is InvalidClaimError:
            return (nan, "invalid claim")
        return False

    def replay(cex):
        x, n, l = cex["v"], cex["now"], cex["leeway"]
        reg = JWTClaimsRegistry(now=n, leeway=l)
        try:
            reg.validate({name: x})
            out = "ok"
        except Exception as e:  # noqa
            out = type(e).__name__
        if x != x:
            good = out == "InvalidClaimError"
        elif name == "exp":
            good = (out == "ok" and x >= n - l) or (out == "ExpiredTokenError" and x < n - l)
        else:
            good = (out == "ok" and x <= n + l) or (out == "InvalidTokenError" and x > n + l)
        return {"violated": not good, "key": "c10-float-" + name, "detail": "validate({%r: %r}) at now=%d leeway=%d -> %s" % (name, x, n, l, out)}

    return P.explore(path, {"v": v, "now": now, "leeway": leeway}, replay, pre=pre, timeout_ms=120000)


def plan(tier):
    q = tier == "quick"
    T = 420 if q else 900
    conds = [
        Cond(H, "time_ints", "main", T, "exp/nbf/iat with unbounded int now, leeway, values; presence flags"),
        Cond(H, "time_ints_witness", "witness", 60), Cond(H, "time_reject_witness", "witness", 60),
        Cond(H, "time_types", "main", T, "exp/nbf/iat value of every JSON type"),
        Cond(H, "time_with_request", "main", T, "time claim that also carries essential/value/values"),
        Cond(H, "generic_str", "main", T * 2, "claim without built-in rule: JSON-typed value x all option shapes (str)"),
        Cond(H, "generic_witness", "witness", 120),
        Cond(H, "generic_scalar", "main", T, "scalar values / requested scalar values of mixed types"),
        Cond(H, "aud_claim", "main", T * 2, "aud: JSON-typed value x essential/value/values"),
        Cond(H, "aud_strings", "main", T * 2, "aud: strings up to 2 chars (substring vs equality), single or list"),
        Cond(H, "aud_witness", "witness", 120),
        Cond(H, "two_claims", "main", T * 2, "two requested claims in either order + an unrequested one"),
        Cond(H, "time_then_claim", "main", T, "time claims mixed with a requested claim, either order"),
        Cond(H, "default_now", "main", T, "now omitted: time.time() stub returns an arbitrary instant"),
    ]
    obls = [Obl("vlib.props.c10", "float_time", {"which": w}, "float64 exp/nbf/iat incl. NaN/inf", 600) for w in range(3)]
    meta = {
        "engine": "E1 CrossHair on the real registry classes (no stubs); E2 pysym with z3 FloatingPoint for float-valued time claims",
        "functions": ["joserfc.rfc7519.registry.ClaimsRegistry.__init__", "ClaimsRegistry.validate", "ClaimsRegistry.check_value",
                      "JWTClaimsRegistry.__init__", "JWTClaimsRegistry.validate_aud", "validate_exp", "validate_nbf", "validate_iat",
                      "_validate_numeric_time"],
        "files": ["rfc7519/registry.py"],
        "bounds": {"now, leeway, integer claim values": "unbounded ints (leeway >= 0)", "strings": "<= 1 char (aud_strings: <= 2)",
                   "lists": "<= 2 entries", "claims per set": "<= 3", "floats": "all float64 values; |now|,|leeway| < 2^62"},
        "outside": ["longer strings/lists, more than 3 claims", "nested JSON values (objects) as claim values",
                    "open cases accepted either way: exp == now-leeway; bool-valued exp/nbf/iat; aud with both value and values; "
                    "empty or falsy requested audience"],
        "stubs": ["time.time -> arbitrary int (default_now only)"],
        "assumptions": ["the oracle `spec` in vlib/harness/c10_claims.py is a faithful reading of the statement",
                        "CrossHair/z3 sound within bounds"],
    }
    return {"conds": conds, "obls": obls, "meta": meta}
