"""C11 — JWK import/export round-trips key material (E2 kernels for member encodings, E1 for validation / identity / byte export)."""
import types, z3
import joserfc.jwk  # noqa  (registers secp256k1 with the EC binding, as every public entry point does)
from vlib import pysym as P
from vlib.core import Cond, Obl
from vlib import gen

BASE = "c11_jwk.py"
BITS = {"P-256": ("secp256r1", 256), "P-384": ("secp384r1", 384), "P-521": ("secp521r1", 521), "secp256k1": ("secp256k1", 256)}


def _decode_member(it, s):
    """octets denoted by an exported base64url member (interpreting joserfc's own decoder would be circular: use the model)"""
    if not isinstance(s, P.SBytes) or not s.is_str:
        return None
    raw = P.SBytes(s.items, False)
    pad = (-len(raw)) % 4
    return P.m_b64decode(it, [P.SBytes(raw.items + [61] * pad), b"-_"], {"validate": True})


def ec_export(crv, private):
    """ECBinding.export_public_key / export_private_key: for all 0 <= x, y, d < 2^bits every exported member is the unpadded
    base64url of exactly ceil(bits/8) big-endian octets of the right number, crv is the curve's JOSE name."""
    from joserfc.rfc7518.ec_key import ECBinding
    cname, bits = BITS[crv]
    L = (bits + 7) // 8
    w = 8 * L + 8
    vs = {n: z3.BitVec(n, w) for n in ("x", "y", "d")}
    nums = {n: P.SInt.from_bv(v) for n, v in vs.items()}
    pre = [z3.ULT(v, z3.BitVecVal(1 << bits, w)) for v in vs.values()]
    curve = types.SimpleNamespace(name=cname, key_size=bits)
    pubn = types.SimpleNamespace(x=nums["x"], y=nums["y"], curve=curve)

    class Pub:
        def public_numbers(self):
            return pubn

    class Priv:
        def private_numbers(self):
            return types.SimpleNamespace(private_value=nums["d"], public_numbers=pubn)
    Pub.curve = Priv.curve = curve

    def path(it):
        try:
            out = it.call(ECBinding.export_private_key if private else ECBinding.export_public_key, Priv() if private else Pub())
        except P.Raised:
            return False
        want = ["crv", "x", "y"] + (["d"] if private else [])
        if not isinstance(out, dict) or sorted(out) != sorted(want) or out["crv"] != crv:
            return False
        goals = []
        for m in want[1:]:
            octets = _decode_member(it, out[m])
            if octets is None or len(octets) != L or len(out[m]) != (4 * L + 2) // 3:
                return False
            goals.append(P.int_cmp("==", P.os2ip(octets.items), nums[m]))
        return z3.And(*goals)

    def replay(cex):
        from vlib import refjose as R
        from joserfc.jwk import ECKey
        from cryptography.hazmat.primitives.asymmetric import ec
        curve_cls, L_ = R.CURVES[crv]
        # find a real key with a short coordinate (leading zero octet): scan small private scalars
        for dd in range(1, 3000):
            k = ec.derive_private_key(dd, curve_cls())
            pn = k.public_key().public_numbers()
            short = pn.x < (1 << (8 * (L_ - 1))) or pn.y < (1 << (8 * (L_ - 1)))
            if short or dd < 3:
                try:
                    j = ECKey(k if private else k.public_key(), k if private else k.public_key()).as_dict()
                except Exception as e:  # noqa
                    return {"violated": True, "key": "c11-ec-export-fails", "detail": "%s key with private scalar %d cannot be exported as JWK: %s %s" % (crv, dd, type(e).__name__, e)}
                for m in ("x", "y") + (("d",) if private else ()):
                    if len(R.b64d(j[m])) != L_:
                        return {"violated": True, "key": "c11-ec-length", "detail": "%s key with private scalar %d exports %s with %d octets (curve needs %d)" % (crv, dd, m, len(R.b64d(j[m])), L_)}
                    v = {"x": pn.x, "y": pn.y, "d": dd}[m]
                    if int.from_bytes(R.b64d(j[m]), "big") != v:
                        return {"violated": True, "key": "c11-ec-value", "detail": "%s member %s does not encode the key's number" % (crv, m)}
        return {"violated": None, "detail": "no real key among d=1..3000 reproduces the model's counterexample %r" % (cex,)}

    return P.explore(path, dict(nums), replay, pre=pre)


def rsa_export(private):
    """RSABinding.export_*: every member is the minimal unsigned big-endian base64url of the matching number
    (n<->n, e<->e, d, p, q, dp<->dmp1, dq<->dmq1, qi<->iqmp), for all numbers below 2^64 (minimality itself: C19)."""
    from joserfc.rfc7518.rsa_key import RSABinding
    names = ["n", "e"] + (["d", "p", "q", "dmp1", "dmq1", "iqmp"] if private else [])
    w = 72
    vs = {n: z3.BitVec(n, w) for n in names}
    nums = {n: P.SInt.from_bv(v) for n, v in vs.items()}
    # one significant-octet class per run keeps to_bytes lengths concrete per path; restrict to exactly 8-octet numbers
    pre = [z3.And(z3.UGE(v, z3.BitVecVal(1 << 56, w)), z3.ULT(v, z3.BitVecVal(1 << 64, w))) for v in vs.values()]
    pubn = types.SimpleNamespace(n=nums["n"], e=nums["e"])

    class Pub:
        def public_numbers(self):
            return pubn

    class Priv:
        def private_numbers(self):
            return types.SimpleNamespace(public_numbers=pubn, **{k: nums[k] for k in names[2:]})

    member = {"n": "n", "e": "e", "d": "d", "p": "p", "q": "q", "dp": "dmp1", "dq": "dmq1", "qi": "iqmp"}

    def path(it):
        try:
            out = it.call(RSABinding.export_private_key if private else RSABinding.export_public_key, Priv() if private else Pub())
        except P.Raised:
            return False
        want = ["n", "e"] + (["d", "p", "q", "dp", "dq", "qi"] if private else [])
        if not isinstance(out, dict) or sorted(out) != sorted(want):
            return False
        goals = []
        for m in want:
            octets = _decode_member(it, out[m])
            if octets is None or len(octets) != 8:
                return False
            goals.append(P.int_cmp("==", P.os2ip(octets.items), nums[member[m]]))
        return z3.And(*goals)

    def replay(cex):
        from vlib import refjose as R
        from joserfc.jwk import RSAKey
        j = R.test_key("RSA2048")
        k = RSAKey.import_key(j if private else R.public_jwk(j))
        k2 = RSAKey(k.raw_value, k.raw_value)
        out = k2.as_dict()
        bad = [m for m in out if m != "kty" and out[m] != j.get(m)]
        return {"violated": bool(bad), "key": "c11-rsa-export", "detail": "re-exported RSA members differ from the RFC-conformant JWK: %r" % bad}

    return P.explore(path, dict(nums), replay, pre=pre)


def okp_export(crv, private):
    """OKPBinding.export_*: x / d are the unpadded base64url of the raw public / private octets (fixed length per curve)."""
    from joserfc.rfc8037 import okp_key as OK
    size = {"Ed25519": 32, "X25519": 32, "Ed448": 57, "X448": 56}[crv]
    xb = P.SBytes([z3.BitVec("x%d" % i, 8) for i in range(size)])
    db = P.SBytes([z3.BitVec("d%d" % i, 8) for i in range(size)])
    pub_cls, priv_cls = OK.PUBLIC_KEYS_MAP[crv], OK.PRIVATE_KEYS_MAP[crv]

    from vlib import ice as _ice

    class Pub(_ice._FakeBase, pub_cls):
        def public_bytes(self, enc, fmt):
            from cryptography.hazmat.primitives.serialization import Encoding, PublicFormat
            if enc != Encoding.Raw or fmt != PublicFormat.Raw:
                raise ValueError("wrong encoding")
            return xb

        def public_bytes_raw(self):
            return xb

        def verify(self, *a):
            pass

    class Priv(_ice._FakeBase, priv_cls):
        def public_key(self):
            return Pub()

        def private_bytes(self, enc, fmt, algo):
            from cryptography.hazmat.primitives.serialization import Encoding, PrivateFormat
            if enc != Encoding.Raw or fmt != PrivateFormat.Raw or type(algo).__name__ != "NoEncryption":
                raise ValueError("wrong encoding")
            return db

        def private_bytes_raw(self):
            return db

        def sign(self, *a):
            pass

        def exchange(self, *a):
            pass

    def path(it):
        try:
            out = it.call(OK.OKPBinding.export_private_key if private else OK.OKPBinding.export_public_key, Priv() if private else Pub())
        except P.Raised:
            return False
        want = ["crv", "x"] + (["d"] if private else [])
        if not isinstance(out, dict) or sorted(out) != sorted(want) or out["crv"] != crv:
            return False
        gx = _decode_member(it, out["x"])
        if gx is None or len(gx) != size:
            return False
        g = [P.seq_eq(gx, xb)]
        if private:
            gd = _decode_member(it, out["d"])
            if gd is None or len(gd) != size:
                return False
            g.append(P.seq_eq(gd, db))
        return z3.And(*g)

    def replay(cex):
        from vlib import refjose as R
        from joserfc.jwk import OKPKey
        j = R.test_key(crv)
        k = OKPKey.import_key(j if private else R.public_jwk(j))
        out = OKPKey(k.raw_value, k.raw_value).as_dict()
        bad = [m for m in out if m != "kty" and out[m] != j.get(m)]
        return {"violated": bool(bad), "key": "c11-okp-export", "detail": "re-exported OKP members differ: %r" % bad}

    return P.explore(path, {"x": xb, "d": db}, replay)


def ec_import(crv):
    """ECBinding.import_public_key: the numbers handed to the curve-point constructor are OS2IP of the decoded x and y on the
    named curve (for every coordinate value)."""
    from joserfc.rfc7518 import ec_key as EK
    cname, bits = BITS[crv]
    L = (bits + 7) // 8
    xb = P.SBytes([z3.BitVec("x%d" % i, 8) for i in range(L)])
    yb = P.SBytes([z3.BitVec("y%d" % i, 8) for i in range(L)])
    xs = P.SBytes(P._b64encode_with(xb, P.URL).items[:(4 * L + 2) // 3], True)
    ys = P.SBytes(P._b64encode_with(yb, P.URL).items[:(4 * L + 2) // 3], True)

    def path(it):
        seen = []

        def m_numbers(it_, args, kw):
            seen.append(args)
            return types.SimpleNamespace(public_key=lambda *a: "NATIVE")
        it.models[EK.EllipticCurvePublicNumbers] = m_numbers
        try:
            out = it.call(EK.ECBinding.import_public_key, {"crv": crv, "x": xs, "y": ys})
        except P.Raised:
            return False
        if out != "NATIVE" or len(seen) != 1 or len(seen[0]) != 3:
            return False
        x, y, curve = seen[0]
        if getattr(curve, "name", None) != cname or not isinstance(x, P.SInt) or not isinstance(y, P.SInt):
            return False
        return z3.And(P.int_cmp("==", x, P.os2ip(xb.items)), P.int_cmp("==", y, P.os2ip(yb.items)))

    def replay(cex):
        from vlib import refjose as R
        from joserfc.jwk import ECKey
        j = R.public_jwk(R.test_key(crv))
        k = ECKey.import_key(j)
        pn = k.raw_value.public_numbers()
        bad = pn.x != R.b2i(j["x"]) or pn.y != R.b2i(j["y"])
        return {"violated": bad, "key": "c11-ec-import", "detail": "imported point differs from the JWK's coordinates"}

    return P.explore(path, {"x": xb, "y": yb}, replay)


def plan(tier):
    q = tier == "quick"
    T = 300 if q else 1500
    specs = [("validate_member", [(t,) for t in range(4)])]
    path, names = gen.specialise(BASE, specs, "c11_gen.py")
    conds = [Cond(path, n, "main", T, "validate_dict_key for key type #" + n.split("__")[1]) for n in names]
    conds += [Cond(BASE, "validate_use_ops", "main", T, "use / key_ops combinations"), Cond(BASE, "rsa_crt", "main", T, "all-or-none CRT members, oth refused"),
              Cond(BASE, "import_export", "main", T, "Key(native, dict).as_dict() returns the given members; copies, not views"),
              Cond(BASE, "bytes_export", "main", T, "as_pem/as_der/as_bytes: encoding, format, encryption object, which native key"),
              Cond(BASE, "set_export_import", "main", T, "KeySet export keeps every key and validates on re-import"),
              Cond(BASE, "witness", "witness", 120)]
    curves = ["P-256", "P-521"] if q else list(BITS)
    obls = [Obl("vlib.props.c11", "ec_export", {"crv": c, "private": p}, "EC member lengths and values", 900) for c in curves for p in (False, True)]
    obls += [Obl("vlib.props.c11", "rsa_export", {"private": p}, "RSA member mapping", 900) for p in (False, True)]
    obls += [Obl("vlib.props.c11", "okp_export", {"crv": c, "private": p}, "OKP raw octets", 900) for c in (("Ed25519", "X448") if q else ("Ed25519", "Ed448", "X25519", "X448")) for p in (False, True)]
    obls += [Obl("vlib.props.c11", "ec_import", {"crv": c}, "EC import: coordinates handed to the point constructor", 900) for c in curves]
    meta = {
        "engine": "E2 pysym on the export/import bindings with symbolic key numbers; E1 CrossHair on validation, identity and byte-export glue with fake native keys",
        "functions": ["ECBinding.export_public_key", "export_private_key", "import_public_key", "_coordinate_to_base64", "RSABinding.export_*", "OKPBinding.export_*",
                      "util.int_to_base64", "urlsafe_b64encode", "BaseKey.validate_dict_key", "NativeKeyBinding.validate_dict_key_registry",
                      "validate_dict_key_use_operations", "has_all_prime_factors", "RSABinding.import_private_key (oth)", "BaseKey.__init__", "as_dict", "dict_value",
                      "AsymmetricKey.as_bytes/as_pem/as_der", "CryptographyBinding.as_bytes", "dump_pem_key", "KeySet.__init__", "KeySet.as_dict"],
        "files": ["rfc7518/ec_key.py", "rfc7518/rsa_key.py", "rfc8037/okp_key.py", "rfc7518/oct_key.py", "rfc7517/models.py", "rfc7517/pem.py", "_keys.py", "util.py", "registry.py"],
        "bounds": {"EC numbers": "all x, y, d < 2^bits on %s" % curves, "RSA numbers": "all 8-octet values (member mapping; minimality for all sizes is C19's)",
                   "OKP": "all raw octet strings of the curve's length", "validation": "every member absent / of every JSON kind, use x key_ops table, all 2^5 CRT subsets"},
        "outside": ["PEM/DER/OpenSSH byte formats, password protection, on-curve checks, interoperation of re-imported native keys: inside pyca (only the ARGUMENTS joserfc passes are checked)",
                    "open case: key_ops given as a bare string"],
        "stubs": ["fake native keys with symbolic numbers", "EllipticCurvePublicNumbers constructor (E2)"],
        "assumptions": ["pyca serialises what it is asked to"],
    }
    return {"conds": conds, "obls": obls, "meta": meta}
