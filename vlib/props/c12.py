"""C12 — public-facing outputs never contain private key material (E1)."""
from vlib.core import Cond
from vlib import gen


def plan(tier):
    q = tier == "quick"
    T = 300 if q else 1500
    B = "c11_jwk.py"
    conds = [Cond(B, "public_export", "main", T, "as_dict(private=False) / KeySet.as_dict(private=False): key type x private-named members present in the JWK x extra parameters"),
             Cond(B, "private_of_public", "main", T, "private JWK/PEM/DER export of a public-only key is an error"),
             Cond(B, "bytes_export", "main", T, "public byte exports use the public native key only"),
             Cond(B, "thumbprint", "main", T, "thumbprint input holds only the required public members"),
             Cond(B, "generated_public", "main", T, "keys generated as public-only (auto_kid or not, registry or class, in a key set or not): no private member in any default / public export"),
             Cond(B, "set_export_import", "main", T, "KeySet.as_dict over two keys of any types: a public export strips the private members of every asymmetric key"),
             Cond(B, "witness", "witness", 120)]
    # tokens: the producing round-trip harnesses scan everything that was encoded for private material
    p3, n3 = gen.specialise("c03_roundtrip.py", [("roundtrip_layout", [(a,) for a in (0, 3, 9, 13)])], "c12_gen3.py")
    p4, n4 = gen.specialise("c04_roundtrip.py", [("roundtrip_options", [(a, e) for a, e in ((1, 3), (7, 0), (8, 3), (17, 0))]), ("caller_epk", [(a,) for a in (7, 8, 17, 18)])], "c12_gen4.py")
    conds += [Cond(p3, n, "main", T, "JWS serializations contain no private member / octets (%s)" % n) for n in n3]
    conds += [Cond(p4, n, "main", T, "JWE serializations and the epk header contain no private member / octets (%s)" % n) for n in n4]
    meta = {
        "engine": "E1 CrossHair with fake native keys whose private accessors return distinctive values; every encoded value is scanned",
        "functions": ["BaseKey.as_dict", "KeySet.as_dict", "AsymmetricKey.as_bytes/as_pem/as_der", "CryptographyBinding.as_bytes", "dump_pem_key",
                      "JWEKeyAgreement.prepare_ephemeral_key", "BaseKey.thumbprint", "rfc7638.thumbprint", "token producing operations of C03/C04"],
        "files": ["rfc7517/models.py", "rfc7517/pem.py", "_keys.py", "rfc7516/models.py", "rfc7518/oct_key.py", "rfc7518/rsa_key.py", "rfc7518/ec_key.py",
                  "rfc8037/okp_key.py", "rfc7638/__init__.py"],
        "bounds": {"key types": "RSA, EC, OKP (+oct where meaningful)", "JWK contents": "private-named members present/absent incl. public-only keys that carry CRT members, extra parameters named like private members",
                   "tokens": "HS256/RS256/ES256/EdDSA and RSA-OAEP/ECDH-ES/ECDH-ES+A128KW/ECDH-1PU round trips"},
        "outside": ["what pyca writes into PEM/DER", "hex / base64 re-encodings of private octets inside opaque primitive outputs (the primitives are ideal)",
                    "open case: the RFC 7638 thumbprint of an oct key is a hash over k by definition"],
        "stubs": ["fake native keys", "ideal ice environment"],
        "assumptions": [],
    }
    return {"conds": conds, "obls": [], "meta": meta}
