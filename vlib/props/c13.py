"""C13 — thumbprints are the RFC 7638 value and depend only on the public key (E1 + E2 EC coordinate kernel)."""
from vlib.core import Cond, Obl


def plan(tier):
    q = tier == "quick"
    T = 300 if q else 1500
    B = "c11_jwk.py"
    conds = [Cond(B, "thumbprint", "main", T * 2, "hash input = sorted required members, compact JSON, chosen digest; same for private/public, any member order, optional members; kid = thumbprint iff absent"),
             Cond(B, "kid_rules", "main", T, "ensure_kid / KeySet / generate_key(auto_kid): a present kid (even empty) is never overwritten; appended keys export their own kid"),
             Cond(B, "set_export_import", "main", T, "every key in a set has a kid"),
             Cond(B, "import_export", "main", T, "exports (also with override parameters such as kid=...) hand out copies: the key's kid and members stay as they were"),
             Cond(B, "witness", "witness", 120)]
    curves = ["P-256", "P-521"] if q else ["P-256", "P-384", "P-521", "secp256k1"]
    obls = [Obl("vlib.props.c11", "ec_export", {"crv": c, "private": p}, "generated / PEM-loaded EC keys export RFC-length coordinates, so their thumbprint equals that of the conformant JWK", 900)
            for c in curves for p in (False, True)]
    obls += [Obl("vlib.props.c11", "okp_export", {"crv": "Ed25519", "private": False}, "OKP x", 600), Obl("vlib.props.c11", "rsa_export", {"private": False}, "RSA n, e", 600)]
    meta = {
        "engine": "E1 CrossHair on thumbprint/ensure_kid/KeySet with opaque JSON and a recording hash; E2 pysym for the member encodings that feed the digest",
        "functions": ["rfc7638.thumbprint", "BaseKey.thumbprint", "ensure_kid", "kid", "KeySet.__init__", "KeySet.as_dict", "OctKey.generate_key(auto_kid)", "ECBinding.export_*"],
        "files": ["rfc7638/__init__.py", "rfc7517/models.py", "_keys.py", "rfc7518/ec_key.py", "rfc7518/rsa_key.py", "rfc8037/okp_key.py", "rfc7518/oct_key.py"],
        "bounds": {"key types": "oct, RSA, EC, OKP x private/public", "member orders": "3 rotations", "optional members": "kid, use, one unknown", "digests": "sha256/384/512"},
        "outside": ["the digest function itself", "PEM/DER loading (pyca); equality across representations is reduced to the export kernels"],
        "stubs": ["hashlib.new -> recorder", "json opaque"],
        "assumptions": [],
    }
    return {"conds": conds, "obls": obls, "meta": meta}
