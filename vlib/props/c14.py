"""C14 — key sets resolve exactly the key named by kid (E1)."""
from vlib.core import Cond
from vlib import gen


def plan(tier):
    q = tier == "quick"
    T = 300 if q else 1500
    conds = [Cond("c11_jwk.py", "get_by_kid", "main", T, "KeySet.get_by_kid: 1..3 keys with arbitrary distinct kids, query absent / arbitrary"),
             Cond("c11_jwk.py", "set_export_import", "main", T, "export / import of a set preserves every key; every key has a kid"),
             Cond("c01_jws.py", "compact_kid_key", "main", T, "JWS verification: header kid (str or int) x key / key set / callable"),
             Cond("c01_jws.py", "compact_kid_one", "main", T, "single-key set: unknown kid must be refused"),
             Cond("c01_jws.py", "general_json_kf1", "main", T * 2, "general JSON: per-signature kid resolves per-signature key (key set)"),
             Cond("c01_jws.py", "general_json_kf2", "main", T * 2, "same through a callable"),
             Cond("c02_jwe.py", "general_json", "main", T * 2, "JWE general JSON: per-recipient kid resolves per-recipient key"),
             Cond("c11_jwk.py", "witness", "witness", 120)]
    p3, n3 = gen.specialise("c03_roundtrip.py", [("roundtrip_keys", [(a,) for a in ((0, 3, 9, 13) if q else range(15))])], "c14_gen3.py")
    p4, n4 = gen.specialise("c04_roundtrip.py", [("roundtrip_options", [(a, e) for a, e in (((3, 3), (7, 0), (1, 3)) if q else [(a, 3) for a in range(21)])]),
                                                 ("explicit_kid", [(a,) for a in ((1, 3, 8, 11) if q else range(17))])], "c14_gen4.py")
    p11, n11 = gen.specialise("c11_jwk.py", [("import_set", [(n_, t_) for n_ in (1, 2, 3) for t_ in (0, 2, 3)])], "c14_gen11.py")
    conds += [Cond(p11, n, "main", T, "KeySet.import_key_set keeps every entry (with or without kid, mixed key types), in order, and gives each a kid (%s)" % n) for n in n11]
    conds += [Cond(p3, n, "main", T, "JWS producing: explicit kid uses that key; without kid a key of the algorithm's type is picked (symbolic index), its kid is written, the public set verifies (%s)" % n) for n in n3]
    conds += [Cond(p4, n, "main", T, ("JWE: an explicit kid in the protected / shared unprotected / per-recipient header selects that key for encryption and decryption (%s)"
                                      if n.startswith("explicit") else "JWE producing with a key set (%s)") % n) for n in n4]
    meta = {
        "engine": "E1 CrossHair (adversarial consumers of C01/C02, ideal round trips of C03/C04, direct KeySet harnesses)",
        "functions": ["jwk.guess_key", "_normalize_key", "KeySet.get_by_kid", "pick_random_key", "algorithm_keys", "as_dict", "__init__", "set_kid variants",
                      "jwe._guess_sender_key", "jws/jwe register_key_set"],
        "files": ["jwk.py", "_keys.py", "rfc7515/model.py", "rfc7516/models.py", "jws.py", "jwe.py"],
        "bounds": {"set sizes": "1..3", "kids": "arbitrary str <= 1 char (lookup), fixed names in operations", "kid position": "protected / unprotected / per-recipient",
                   "key forms": "set directly or through a callable", "random pick": "symbolic index"},
        "outside": ["sets larger than 3", "sender key lookup by skid (ECDH-1PU)"],
        "stubs": ["random.choice -> symbolic index", "ice environments"],
        "assumptions": [],
    }
    return {"conds": conds, "obls": [], "meta": meta}
