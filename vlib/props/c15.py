"""C15 — header parameters are validated when producing and when consuming (E1)."""
from vlib.core import Cond
from vlib import gen

BASE = "c15_headers.py"
KINDS = list(range(11))


def plan(tier):
    q = tier == "quick"
    T = 420 if q else 1500
    if q:
        # quick: every value kind for the generic member harnesses on two algorithms (dir, ECDH-ES); the other algorithms and the
        # caller-registered / crit harnesses with the scalar + list kinds only.  thorough: the full product.
        SUB = [0, 2, 3, 5, 8]
        specs = [("jws_member", [(k,) for k in KINDS]), ("jws_crit", [(k,) for k in SUB]), ("jws_tenant", [(k,) for k in SUB]),
                 ("b64_crit", [(k,) for k in KINDS]),
                 ("jwe_member", [(k, a) for k in KINDS for a in (0, 3)] + [(k, a) for k in (0, 2, 3) for a in (2, 4)]),
                 ("jwe_tenant", [(k,) for k in SUB])]
    else:
        specs = [("jws_member", [(k,) for k in KINDS]), ("jws_crit", [(k,) for k in KINDS]), ("jws_tenant", [(k,) for k in KINDS]),
                 ("b64_crit", [(k,) for k in KINDS]),
                 ("jwe_member", [(k, a) for k in KINDS for a in range(5)]), ("jwe_tenant", [(k,) for k in KINDS])]
    path, names = gen.specialise(BASE, specs, "c15_gen.py")
    conds = [Cond(path, n, "main", T, n.replace("__", " specialised to value kind / alg ")) for n in names]
    conds += [Cond(BASE, "jws_url_member", "main", T, "url-typed members with any str <= 9 chars"),
              Cond(BASE, "jwe_accepts_valid", "main", T, "a required caller-registered parameter is enforced when missing and accepted when present"),
              Cond(BASE, "history_jwe", "main", T, "two calls with registries that do / do not register a parameter: second verdict equals isolation"),
              Cond(BASE, "jws_witness", "witness", 120), Cond(BASE, "jwe_witness", "witness", 120)]
    meta = {
        "engine": "E1 CrossHair on the real registries and JWS/JWE operations in the ice environment; oracle written from the statement",
        "functions": ["registry.validate_registry_header", "check_crit_header", "check_supported_header", "is_str/is_url/is_int/is_bool/is_list_str/is_jwk",
                      "JWSRegistry.check_header", "rfc7797.JWSRegistry.check_header", "_safe_b64_header", "JWERegistry.check_header",
                      "jws.serialize_compact", "deserialize_compact", "serialize_json", "deserialize_json", "rfc7797.serialize_compact",
                      "rfc7797.deserialize_compact", "jwe.encrypt_compact", "decrypt_compact", "rfc7516.message.__prepare_recipient_algorithm", "_perform_decrypt"],
        "files": ["registry.py", "rfc7515/registry.py", "rfc7516/registry.py", "rfc7797/registry.py", "rfc7518/jwe_algs.py", "jws.py",
                  "rfc7515/json.py", "rfc7516/message.py", "rfc7797/compact.py"],
        "bounds": {"member values": "null, bool, int -2..2, any str <= 2 chars (url members <= 9), [], [t], [n], [[n]], {}, {a:n,crv:t}, [t,n]",
                   "members": "every registered JWS/JWE parameter, algorithm-specific ones for ECDH-ES / PBES2 / A128GCMKW, one unknown, one caller-registered (str or int, optional or required)",
                   "positions": "protected (compact), protected+unprotected (flattened JSON)", "strict": "on/off", "histories": "2 calls"},
        "outside": ["open case: a JSON boolean where the registry says int (Python bool is an int)", "per-recipient header position in general JSON JWE",
                    "ECDH-1PU header parameters (draft, not registered by default)"],
        "stubs": ["ice environment incl. key generation (fresh fake keys)"],
        "assumptions": ["oracle `acceptable` is a faithful reading of the statement"],
    }
    return {"conds": conds, "obls": [], "meta": meta}
