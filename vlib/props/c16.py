"""C16 — untrusted tokens are rejected only with JoseError or ValueError (E1 adversarial)."""
from vlib.core import Cond
from vlib import gen

BASE = "c16_errors.py"
KINDS = list(range(11))
KIND_NAME = ["null", "bool", "int n", "str s", "[]", "[s]", "[n]", "[[n]]", "{}", "{a: n, crv: s}", "[s, n]"]


def plan(tier):
    q = tier == "quick"
    T = 240 if q else 1200
    specs = [("jws_header_value", [(k,) for k in KINDS]), ("jws_member", [(k,) for k in KINDS]),
             ("jws_crit_pairs", [(k,) for k in KINDS]), ("jws_unprotected_member", [(k,) for k in KINDS]),
             ("jwt_payload", [(k,) for k in KINDS]), ("jws_keyset_kid", [(k,) for k in KINDS]),
             ("jwe_header_value", [(k,) for k in KINDS]), ("jwe_keyset_kid", [(k,) for k in KINDS]), ("jwe_member_dir", [(k,) for k in KINDS]),
             ("jwe_member_kw", [(k,) for k in KINDS]),
             ("jwe_member_gcmkw", [(k,) for k in KINDS if k != 3] + [(3, m) for m in range(9, 13)]),
             ("jwe_member_ecdh", [(k,) for k in KINDS if k != 3] + [(3, m) for m in range(3, 8)]),
             ("jwe_member_pbes2", [(k,) for k in KINDS if k != 3] + [(3, m) for m in range(8, 10)]),
             ("jwe_epk_member", [(k,) for k in KINDS if k != 3] + [(3, m) for m in range(9)]),
             ("jwe_segments", [(a,) for a in range(7)]), ("jwe_json_shape", [(a,) for a in range(7)])]
    path, names = gen.specialise(BASE, specs, "c16_gen.py")
    conds = []
    for n in names:
        base, v = n.split("__")
        v0 = v.split("_")[0]
        note = "%s with %s" % (base, ("value kind " + KIND_NAME[int(v0)] + (" member #" + v.split("_")[1] if "_" in v else ""))
                               if base not in ("jwe_segments", "jwe_json_shape") else "alg #" + v)
        conds.append(Cond(path, n, "main", T, note))
    conds += [Cond(BASE, "jwe_p2c_any_int", "main", T, "PBES2 p2c: any (unbounded) int or bool"),
              Cond(BASE, "jwe_cbc", "main", T, "A128CBC-HS256 (dir, A128KW): IV/tag length classes, MAC verdict, and every class of CBC output under a valid tag "
                                               "(well padded, empty, bad padding, only padding), with and without zip"),
              Cond(BASE, "jws_witness", "witness", 60), Cond(BASE, "jwe_witness", "witness", 60)]
    meta = {
        "engine": "E1 CrossHair on every consumer entry point in the adversarial ice environment",
        "functions": ["jws.deserialize_compact", "jws.deserialize_json", "rfc7797.deserialize_compact", "rfc7797.deserialize_json",
                      "jwt.decode", "jwe.decrypt_compact", "jwe.decrypt_json", "registry.validate_registry_header", "check_crit_header",
                      "check_supported_header", "JWERegistry.check_header", "_check_algorithm", "rfc7516.message._perform_decrypt",
                      "decrypt_recipient", "ECDHESAlgModel.decrypt_agreed_upon_key", "PBES2HSAlgModel.decrypt_cek", "AESGCMAlgModel.decrypt_cek",
                      "BaseKey.import_key", "validate_dict_key", "ECBinding.import_public_key", "OKPBinding.import_public_key",
                      "derive_key_for_concat_kdf", "u32be_len_input", "DeflateZipModel.decompress", "util.json_b64decode", "urlsafe_b64decode",
                      "KeySet.get_by_kid", "jwk.guess_key"],
        "files": ["jws.py", "jwe.py", "jwt.py", "registry.py", "util.py", "rfc7515/compact.py", "rfc7515/json.py", "rfc7515/registry.py",
                  "rfc7516/compact.py", "rfc7516/json.py", "rfc7516/message.py", "rfc7516/registry.py", "rfc7518/jwe_algs.py",
                  "rfc7518/jwe_zips.py", "rfc7518/derive_key.py", "rfc7518/ec_key.py", "rfc8037/okp_key.py", "rfc7797/compact.py",
                  "rfc7797/json.py", "rfc7517/models.py"],
        "bounds": {"JSON value in place of the header / of each member": "null, bool, int n in -2..2 (p2c: any int), any str s <= 2 chars, [], [t], [n], [[n]], {}, {a: n, crv: t}, [t, n] with t one of alg|b64|zz|""|enc",
                   "members": "alg, kid, crit, typ, jwk, x5c, b64, jku, unknown (JWS); alg, enc, zip, kid, crit, epk (+9 epk members), apu, apv, p2s, p2c, iv, tag, unknown (JWE)",
                   "decoder failures": "binascii.Error per segment, JSONDecodeError, UnicodeDecodeError, RecursionError",
                   "primitive failures": "InvalidTag, InvalidUnwrap, ValueError, zlib.error, invalid epk point", "recipients": "0..2"},
        "outside": ["floats as header values (json.loads may produce them; CrossHair is inconclusive on floats)", "nesting deeper than 2",
                    "JSON-serialization dicts whose members violate their declared Python types (excluded by the statement)",
                    "ECDH-1PU / ChaCha20 (not registered by default)"],
        "stubs": ["adversarial ice environment (DESIGN.md §2.1)"],
        "assumptions": ["exception classes of the stubbed leaves are those probed from the real leaves (DESIGN.md §2.1 table)"],
    }
    return {"conds": conds, "obls": [], "meta": meta}
