"""C17 — decompression of JWE plaintext is bounded (E1 with a zlib contract stub; E2 for the raw-DEFLATE framing slice)."""
import zlib, z3
from vlib import pysym as P
from vlib.core import Cond, Obl

H = "c17_zip.py"


def compress_framing(n):
    """compress(s) == the RFC 1951 body of zlib.compress(s) (2-octet zlib header and 4-octet Adler-32 removed), for every
    |s| = n and every body zlib may produce (opaque: header(2) || body(m) || adler(4) with symbolic octets, m = n+1)."""
    import joserfc.rfc7518.jwe_zips as Z
    model = Z.DeflateZipModel()
    s = P.SBytes([z3.BitVec("s%d" % i, 8) for i in range(n)])
    m = n + 1
    blob = P.SBytes([z3.BitVec("z%d" % i, 8) for i in range(2 + m + 4)])

    def path(it):
        seen = []

        def m_compress(it_, args, kw):
            seen.append((args, kw))
            return blob

        it.models[zlib.compress] = m_compress
        try:
            out = it.call(model.compress, s)
        except P.Raised:
            return False
        if len(seen) != 1 or seen[0][0][0] is not s or not isinstance(out, P.SBytes) or len(out) != m:
            return False
        return P.seq_eq(out, P.SBytes(blob.items[2:2 + m]))

    def replay(cex):
        x = cex["s"]
        c = model.compress(x)
        try:
            ok = zlib.decompressobj(-zlib.MAX_WBITS).decompress(c) == x and c == zlib.compress(x)[2:-4]
        except Exception:  # noqa
            ok = False
        return {"violated": not ok, "key": "c17-framing", "detail": "compress(%r) = %r is not the raw DEFLATE stream" % (x, c)}

    return P.explore(path, {"s": s}, replay)


def plan(tier):
    T = 120 if tier == "quick" else 600
    conds = [
        Cond(H, "bounded", "main", T, "for every expanded size (unbounded int), both cut modes, with/without zlib header"),
        Cond(H, "corrupt_stream", "main", T, "zlib.error from the primitive is mapped to a JoseError"),
        Cond(H, "witness_accept", "witness", 60), Cond(H, "witness_exceed", "witness", 60),
    ]
    ns = range(0, 5) if tier == "quick" else range(0, 17)
    obls = [Obl("vlib.props.c17", "compress_framing", {"n": n}, "raw DEFLATE framing slice", 300) for n in ns]
    meta = {
        "engine": "E1 CrossHair on the real DeflateZipModel.decompress with a contract stub of zlib.decompressobj; E2 pysym for compress()",
        "functions": ["joserfc.rfc7518.jwe_zips.DeflateZipModel.decompress", "DeflateZipModel.compress"],
        "files": ["rfc7518/jwe_zips.py"],
        "bounds": {"expanded size": "any integer >= 0 (unbounded)", "cut mode": "unconsumed tail left / output pending with empty tail",
                   "compress input": "every octet string of length %s" % list(ns)},
        "outside": ["real compression ratios and real DEFLATE bit streams (zlib is the trusted leaf)", "peak memory is implied by "
                    "'no unbounded decompress/flush call and <= 256000 octets returned' under zlib's contract; it is measured only in replays",
                    "that zip is applied only after authentication is asserted by the C02 harnesses"],
        "stubs": ["zlib.decompressobj -> FakeD (vlib/harness/c17_zip.py)", "zlib.compress -> opaque header||body||adler"],
        "assumptions": ["zlib Decompress contract as documented (max_length, unconsumed_tail, eof, flush)"],
    }
    return {"conds": conds, "obls": obls, "meta": meta}
