"""C18 — every encryption and key generation draws fresh randomness of the right size (E1 ideal, RNG as a symbolic source)."""
from vlib.core import Cond
from vlib import gen

BASE = "c04_roundtrip.py"
GEN = "c18_keygen.py"


def plan(tier):
    q = tier == "quick"
    T = 300 if q else 1800
    algs = range(21)
    specs = [("two_messages", [(a,) for a in algs]), ("two_recipients", [(a,) for a in (7, 8, 17, 18)])]
    path, names = gen.specialise(BASE, specs, "c18_gen.py")
    conds = [Cond(path, n, "main", T, n) for n in names]
    conds += [Cond(GEN, "generate_oct", "main", T, "OctKey.generate_key: size, source, two calls"),
              Cond(GEN, "generate_asym", "main", T, "RSA/EC/OKP generate_key: generator receives the requested size/curve, two calls give distinct keys"),
              Cond(GEN, "witness", "witness", 120)]
    meta = {
        "engine": "E1 CrossHair on the real encryption pipeline and key generators with secrets/os.urandom/key generators replaced by a recording fresh-value source",
        "functions": ["JWEEncModel.generate_cek", "generate_iv", "perform_encrypt", "pre_encrypt_recipients", "JWEKeyAgreement.prepare_ephemeral_key",
                      "AESGCMAlgModel.encrypt_cek", "PBES2HSAlgModel.encrypt_cek", "OctKey.generate_key", "RSAKey.generate_key",
                      "ECKey.generate_key", "ECBinding.generate_private_key", "OKPKey.generate_key", "JWKRegistry.generate_key"],
        "files": ["rfc7516/models.py", "rfc7516/message.py", "rfc7518/jwe_algs.py", "rfc7518/oct_key.py", "rfc7518/rsa_key.py", "rfc7518/ec_key.py", "rfc8037/okp_key.py"],
        "bounds": {"sequences": "2 encryptions with equal arguments; 2 recipients in one message; 2 key generations", "algorithms": "all 21 alg x symbolic enc (8) x curve (6) x serialization (3)",
                   "key generation": "oct size any int, RSA size any int, all curves"},
        "outside": ["statistical quality of the RNG (no fixed bits), N up to 10^4, distinctness across processes -- only checked concretely in replays (64 encryptions + 2 forked children)",
                    "the claim is inductive: a value that is a fresh draw of the right size at every call position is fresh at all positions, given an ideal source"],
        "stubs": ["secrets.token_bytes / os.urandom / ec.generate_private_key / rsa.generate_private_key / OKP generate -> fresh, recorded values"],
        "assumptions": ["secrets/os.urandom are ideal RNGs (pairwise distinct outputs)"],
    }
    return {"conds": conds, "obls": [], "meta": meta}
