"""C19 — base64url and integer codecs are strict and lossless (engine E2, kernels util.py + rfc7518/util.py)."""
from __future__ import annotations
import itertools, json, binascii, base64, time
import z3
from vlib import pysym as P
from vlib.core import Obl

URLSET = P.URL


def _util():
    import joserfc.util as U
    return U


def _u2():
    import joserfc.rfc7518.util as U2
    return U2


def sym_bytes(n, name="b", is_str=False):
    return P.SBytes([z3.BitVec("%s%d" % (name, i), 8) for i in range(n)], is_str)


def outcome(it, f, *args):
    """('ret', value) | ('exc', exception instance)"""
    try:
        return ("ret", it.call(f, *args))
    except P.Raised as r:
        return ("exc", r.exc)


def native_outcome(f, *args):
    try:
        return ("ret", f(*args))
    except Exception as e:  # noqa
        return ("exc", e)


# ---------------------------------------------------------------- obligations

def roundtrip(n):
    """for all b in {0..255}^n: urlsafe_b64decode(urlsafe_b64encode(b)) == b, and the encoding only uses A-Za-z0-9-_"""
    U = _util()
    b = sym_bytes(n)

    def path(it):
        o = outcome(it, U.urlsafe_b64encode, b)
        if o[0] != "ret" or not isinstance(o[1], P.SBytes) or o[1].is_str:
            return False
        enc = o[1]
        alpha = z3.And(*[P.in_set(c, URLSET) for c in enc.items]) if enc.items else z3.BoolVal(True)
        want_len = (4 * n + 2) // 3
        d = outcome(it, U.urlsafe_b64decode, enc)
        if d[0] != "ret":
            # must not happen for an in-alphabet encoding; path condition decides
            return False
        return z3.And(alpha, z3.BoolVal(len(enc) == want_len), P.seq_eq(d[1], b))

    def replay(cex):
        x = cex["b"]
        e = U.urlsafe_b64encode(x)
        ok = set(e) <= set(URLSET)
        try:
            ok = ok and U.urlsafe_b64decode(e) == x
        except Exception:
            ok = False
        return {"violated": not ok, "key": "b64-roundtrip", "detail": "b=%r encode=%r" % (x, e)}

    return P.explore(path, {"b": b}, replay)


def decode_strict(n):
    """for all s in {0..255}^n: decode succeeds => s.rstrip('=') in alphabet* and len(stripped) % 4 != 1;
    failure => ValueError subclass;  unpadded in-alphabet s with n % 4 != 1 => decodes to floor(6n/8) octets."""
    U = _util()
    s = sym_bytes(n, "c")
    cs = s.items

    def spec_accept_possible():
        # exists k trailing '=' such that the first n-k chars are all in alphabet and (n-k) % 4 != 1
        alts = []
        for k in range(0, n + 1):
            m = n - k
            if m % 4 == 1:
                continue
            conds = [P.in_set(c, URLSET) for c in cs[:m]] + [c == 61 for c in cs[m:]]
            alts.append(z3.And(*conds) if conds else z3.BoolVal(True))
        return z3.Or(*alts) if alts else z3.BoolVal(False)

    clean = z3.And(*[P.in_set(c, URLSET) for c in cs]) if cs else z3.BoolVal(True)

    def path(it):
        o = outcome(it, U.urlsafe_b64decode, s)
        if o[0] == "exc":
            must_accept = z3.And(clean, z3.BoolVal(n % 4 != 1))
            return (z3.And(z3.BoolVal(isinstance(o[1], ValueError)), z3.Not(must_accept)), "rejected")
        out = o[1]
        if not isinstance(out, P.SBytes):
            return False
        length_ok = z3.Implies(clean, z3.BoolVal(len(out) == (6 * n) // 8))
        return (z3.And(spec_accept_possible(), length_ok), "accepted")

    def replay(cex):
        x = cex["s"]
        st = x.rstrip(b"=")
        spec_ok = set(st) <= set(URLSET) and len(st) % 4 != 1
        must = set(x) <= set(URLSET) and len(x) % 4 != 1
        try:
            U.urlsafe_b64decode(x)
            bad = not spec_ok
            what = "accepted"
        except ValueError:
            bad = must
            what = "rejected with ValueError"
        except Exception as e:  # noqa
            bad = True
            what = "raised %s" % type(e).__name__
        return {"violated": bad, "key": "b64-strict-decode", "detail": "s=%r %s" % (x, what)}

    return P.explore(path, {"s": s}, replay)


def int_decode_strict(n):
    """for all s in {0..255}^n (n >= 1): base64_to_int(s) returns only if s.rstrip('=') is in the alphabet (the integer decoder is as strict as
    the octet decoder: junk inside a JWK integer member is refused); a failure is a ValueError."""
    U = _util()
    s = sym_bytes(n, "c")
    cs = s.items
    alts = []
    for k in range(0, n + 1):
        m = n - k
        if m % 4 == 1:
            continue
        conds = [P.in_set(c, URLSET) for c in cs[:m]] + [c == 61 for c in cs[m:]]
        alts.append(z3.And(*conds) if conds else z3.BoolVal(True))
    accept_possible = z3.Or(*alts) if alts else z3.BoolVal(False)

    def path(it):
        o = outcome(it, U.base64_to_int, s)
        if o[0] == "exc":
            return (z3.BoolVal(isinstance(o[1], ValueError)), "rejected")
        return (accept_possible, "accepted")

    def replay(cex):
        x = cex["s"]
        st = x.rstrip(b"=")
        spec_ok = set(st) <= set(URLSET) and len(st) % 4 != 1
        try:
            U.base64_to_int(x)
            bad, what = not spec_ok, "accepted"
        except ValueError:
            bad, what = False, "rejected with ValueError"
        except Exception as e:  # noqa
            bad, what = True, "raised %s" % type(e).__name__
        return {"violated": bad, "key": "int-strict-decode", "detail": "base64_to_int(%r) %s" % (x, what)}

    return P.explore(path, {"s": s}, replay)


def int_roundtrip(nbytes):
    """for all n with exactly `nbytes` significant octets (2^(8(nbytes-1)) <= n < 2^(8 nbytes)):
    int_to_base64(n) is the unpadded base64url of the minimal big-endian encoding and base64_to_int inverts it."""
    U = _util()
    w = 8 * nbytes + 8           # one spare octet of headroom
    nb = z3.BitVec("n", w)
    n = P.SInt.from_bv(nb)
    pre = [z3.UGE(nb, z3.BitVecVal(1 << (8 * (nbytes - 1)), w)), z3.ULT(nb, z3.BitVecVal(1 << (8 * nbytes), w))]

    def path(it):
        o = outcome(it, U.int_to_base64, n)
        if o[0] != "ret" or not isinstance(o[1], P.SBytes) or not o[1].is_str:
            return False
        enc = o[1]
        alpha = z3.And(*[P.in_set(c, URLSET) for c in enc.items])
        want_len = (4 * nbytes + 2) // 3
        # independent reference: big-endian octets of n, then RFC 4648 sextets
        ref_octets = [z3.Extract(8 * nbytes - 1 - 8 * j, 8 * nbytes - 8 - 8 * j, nb) for j in range(nbytes)]
        ref = P._b64encode_with(P.SBytes(ref_octets), URLSET)
        ref_items = ref.items[:want_len]
        same = z3.And(*[a == b for a, b in zip(enc.items, ref_items)])
        d = outcome(it, U.base64_to_int, enc)
        if d[0] != "ret" or not isinstance(d[1], P.SInt):
            return False
        return z3.And(alpha, z3.BoolVal(len(enc) == want_len), same, P.int_cmp('==', d[1], n))

    def replay(cex):
        x = cex["n"]
        try:
            e = U.int_to_base64(x)
            raw = x.to_bytes((x.bit_length() + 7) // 8, "big")
            ok = e == base64.urlsafe_b64encode(raw).rstrip(b"=").decode() and U.base64_to_int(e) == x
        except Exception as ex:  # noqa
            ok, e = False, repr(ex)
        return {"violated": not ok, "key": "int-codec", "detail": "n=%d int_to_base64=%r" % (x, e)}

    return P.explore(path, {"n": n}, replay, pre=pre)


def int_negative():
    """for all n < 0: int_to_base64(n) raises ValueError (negative integers are refused)."""
    U = _util()
    e = z3.Int("n")
    n = P.SInt(e)

    def path(it):
        o = outcome(it, U.int_to_base64, n)
        return o[0] == "exc" and isinstance(o[1], ValueError)

    def replay(cex):
        x = cex["n"]
        try:
            U.int_to_base64(x)
            return {"violated": True, "key": "int-negative", "detail": "int_to_base64(%d) returned" % x}
        except ValueError:
            return {"violated": False, "detail": "raises ValueError"}
        except Exception as ex:  # noqa
            return {"violated": True, "key": "int-negative", "detail": "int_to_base64(%d) raised %s" % (x, type(ex).__name__)}

    return P.explore(path, {"n": n}, replay, pre=[e < 0, e > -(2 ** 4096)])


def fixed_int_roundtrip(bits):
    """for all 0 <= num < 2^bits: encode_int(num, bits) has exactly ceil(bits/8) octets, is big-endian, decode_int inverts."""
    U2 = _u2()
    nbytes = (bits + 7) // 8
    w = 8 * nbytes + 8
    nb = z3.BitVec("num", w)
    num = P.SInt.from_bv(nb)
    pre = [z3.ULT(nb, z3.BitVecVal(1 << bits, w))]

    def path(it):
        o = outcome(it, U2.encode_int, num, bits)
        if o[0] != "ret" or not isinstance(o[1], P.SBytes) or o[1].is_str:
            return False
        enc = o[1]
        if len(enc) != nbytes:
            return False
        be = z3.And(*[enc.items[j] == z3.Extract(8 * nbytes - 1 - 8 * j, 8 * nbytes - 8 - 8 * j, nb) for j in range(nbytes)])
        d = outcome(it, U2.decode_int, enc)
        if d[0] != "ret" or not isinstance(d[1], P.SInt):
            return False
        return z3.And(be, P.int_cmp('==', d[1], num))

    def replay(cex):
        x = cex["num"]
        try:
            e = U2.encode_int(x, bits)
            ok = e == x.to_bytes(nbytes, "big") and U2.decode_int(e) == x
        except Exception as ex:  # noqa
            ok, e = False, repr(ex)
        return {"violated": not ok, "key": "fixed-int-codec", "detail": "num=%d bits=%d encode_int=%r" % (x, bits, e)}

    return P.explore(path, {"num": num}, replay, pre=pre)


def decode_int_any(nbytes):
    """for all s in {0..255}^nbytes: decode_int(s) == OS2IP(s)."""
    U2 = _u2()
    s = sym_bytes(nbytes, "s")

    def path(it):
        d = outcome(it, U2.decode_int, s)
        if d[0] != "ret" or not isinstance(d[1], P.SInt):
            return False
        return P.int_cmp('==', d[1], P.os2ip(s.items))

    def replay(cex):
        x = cex["s"]
        try:
            ok = U2.decode_int(x) == int.from_bytes(x, "big")
        except Exception:  # noqa
            ok = False
        return {"violated": not ok, "key": "decode-int", "detail": "s=%r" % (x,)}

    return P.explore(path, {"s": s}, replay)


class _JsonTok:
    pass


def json_codec(n):
    """json_b64encode(d) = b64url(ASCII(json.dumps(d, ensure_ascii=True, separators=(',',':')))) and json_b64decode hands
    exactly that text back to json.loads  (json itself is an opaque leaf: text = any ASCII string of length n)."""
    U = _util()
    text = sym_bytes(n, "j", True)
    pre = [z3.ULT(c, 128) for c in text.items]
    d = {"some": "header"}

    def path(it):
        calls = []

        def m_dumps(it_, args, kw):
            calls.append(("dumps", args, kw))
            return text

        def m_loads(it_, args, kw):
            calls.append(("loads", args, kw))
            return _JsonTok

        it.models[json.dumps] = m_dumps
        it.models[json.loads] = m_loads
        o = outcome(it, U.json_b64encode, d)
        if o[0] != "ret" or not isinstance(o[1], P.SBytes) or o[1].is_str:
            return False
        enc = o[1]
        ref = P._b64encode_with(P.SBytes(text.items), URLSET).items[:(4 * n + 2) // 3]
        if len(enc) != len(ref):
            return False
        same = z3.And(*[a == b for a, b in zip(enc.items, ref)]) if ref else z3.BoolVal(True)
        if len(calls) != 1 or calls[0][1] != [d]:
            return False
        kw = calls[0][2]
        if kw.get("ensure_ascii", True) is not True or kw.get("separators") != (",", ":") or set(kw) - {"ensure_ascii", "separators"}:
            return False
        r = outcome(it, U.json_b64decode, enc)
        if r[0] != "ret" or r[1] is not _JsonTok or len(calls) != 2:
            return False
        arg = calls[1][1][0]
        if not isinstance(arg, P.SBytes):
            return False
        if calls[1][2] or len(calls[1][1]) != 1:
            return False
        return z3.And(same, P.seq_eq(P.SBytes(arg.items, True), text))

    def replay(cex):
        import unittest.mock as mock
        t = cex["text"]
        seen = []
        with mock.patch.object(json, "dumps", lambda o, **kw: (seen.append(kw), t)[1]), \
                mock.patch.object(json, "loads", lambda s, **kw: (seen.append(s), _JsonTok)[1]):
            try:
                e = U.json_b64encode(d)
                ok = e == base64.urlsafe_b64encode(t.encode("ascii")).rstrip(b"=") and \
                    seen[0].get("separators") == (",", ":") and seen[0].get("ensure_ascii", True) is True
                r = U.json_b64decode(e)
                got = seen[1].decode() if isinstance(seen[1], bytes) else seen[1]
                ok = ok and r is _JsonTok and got == t
            except Exception as ex:  # noqa
                ok = False
        return {"violated": not ok, "key": "json-b64", "detail": "json text=%r" % (t,)}

    return P.explore(path, {"text": text}, replay, pre=pre)


def validate_models(part=0, parts=1):
    """Translator validation (not the deciding step): interpret the kernels on fully concrete inputs and compare with
    native execution, including the exception class.  All octet strings over a reduced alphabet up to length 6 for the
    decoder, all octet strings of length <= 2 for the encoders, boundary integers for the integer codecs, and the
    repository's own test inputs."""
    U, U2 = _util(), _u2()
    t0 = time.time()
    n = 0
    bad = []

    def run(f, *args):
        ctx = P.Ctx()
        it = P.Interp(ctx)
        o = outcome(it, f, *[P.conc_seq(a) if isinstance(a, (bytes, str)) else a for a in args])
        if o[0] == "ret":
            v = o[1]
            if isinstance(v, (P.SBytes, P.SInt)):
                m = z3.Solver()
                m.check()
                v = P.model_value(m.model(), v)
            return ("ret", v)
        return ("exc", type(o[1]).__name__)

    def cmp(f, *args):
        nonlocal n
        n += 1
        a = run(f, *args)
        b = native_outcome(f, *args)
        b = ("ret", b[1]) if b[0] == "ret" else ("exc", type(b[1]).__name__)
        if a != b:
            bad.append((f.__name__, args, a, b))

    red = [ord("A"), ord("_"), ord("="), ord("-"), ord("+"), 0xFF, ord("/"), ord("\n")]
    k = 0
    for L in range(0, 9):
        alphabet = red if L <= 4 else (red[:5] if L == 5 else red[:3])
        for tup in itertools.product(alphabet, repeat=L):
            k += 1
            if k % parts == part:
                cmp(U.urlsafe_b64decode, bytes(tup))
    k = 0
    for L in range(0, 6):
        for tup in itertools.product([ord("A"), ord("_"), ord("="), ord("\n"), 0xFF, ord("Q")], repeat=L):
            k += 1
            if k % parts == part:
                cmp(base64.urlsafe_b64decode, bytes(tup))
    if part != 0:
        return dict(paths=0, queries=0, unsat=0, sat=0, unknown=0, secs=round(time.time() - t0, 2),
                    verdict="error" if bad else "confirmed", detail=repr(bad[:3]), concrete_validations=n,
                    sample={"concrete_inputs_compared": n, "mismatches": len(bad)})
    for L in range(0, 3):
        for tup in itertools.product(range(256), repeat=L):
            if L == 2 and (tup[0] % 17 or tup[1] % 13):
                continue
            cmp(U.urlsafe_b64encode, bytes(tup))
    for s in (b"hello", b"foo", b"\x00\x01\x02\x03\x04", b"\xff" * 7):
        cmp(U.urlsafe_b64encode, s)
    # repository test inputs
    cmp(U.urlsafe_b64decode, b"_foo123-")
    cmp(U.urlsafe_b64decode, b"+foo123/")
    for x in (0, 1, 255, 256, 257, 65535, 65536, 2 ** 64 - 1, 2 ** 64, 2 ** 521 - 1):
        w = max(8, ((x.bit_length() + 7) // 8) * 8 + 8)
        cmp(U.int_to_base64, P.SInt.from_bv(z3.BitVecVal(x, w))) if False else None
        n += 1
        ctx = P.Ctx()
        it = P.Interp(ctx)
        o = outcome(it, U.int_to_base64, P.SInt.from_bv(z3.BitVecVal(x, w)))
        s0 = z3.Solver()
        s0.check()
        got = P.model_value(s0.model(), o[1]) if o[0] == "ret" else type(o[1]).__name__
        if got != U.int_to_base64(x):
            bad.append(("int_to_base64", x, got, U.int_to_base64(x)))
        for bits in (8, 64, 256, 521):
            if x < 2 ** bits:
                n += 1
                ctx = P.Ctx()
                it = P.Interp(ctx)
                o = outcome(it, U2.encode_int, P.SInt.from_bv(z3.BitVecVal(x, ((bits + 7) // 8) * 8 + 8)), bits)
                got = P.model_value(s0.model(), o[1]) if o[0] == "ret" else type(o[1]).__name__
                if got != U2.encode_int(x, bits):
                    bad.append(("encode_int", x, bits, got))
    for s in ("AQAB", "AA", "_w", "", "A", "AQ=B", "A B"):
        cmp(U.base64_to_int, s)
    for s in (b"", b"\x00", b"\x01\x00", b"\xff" * 9):
        if s:
            cmp(U2.decode_int, s)
    r = dict(paths=0, queries=0, unsat=0, sat=0, unknown=0, secs=round(time.time() - t0, 2), concrete_validations=n,
             sample={"concrete_inputs_compared": n, "mismatches": len(bad)})
    if bad:
        r.update(verdict="error", detail="interpreter/model disagrees with native execution: %r" % (bad[:3],))
    else:
        r.update(verdict="confirmed", concrete_validations=n)
    return r


# ---------------------------------------------------------------- plan

def plan(tier):
    M = "vlib.props.c19"
    obls = [Obl(M, "validate_models", {"part": i, "parts": 6}, "translator validation on concrete inputs", 900) for i in range(6)]
    if tier == "quick":
        rt, ds, ints, fixed, js = range(0, 9), range(0, 6), [1, 2, 3, 4, 5, 8, 16, 32, 33, 48, 66], [256, 384, 521], [0, 1, 2, 3, 4, 7]
        dec_any = [1, 2, 32, 66]
    else:
        rt, ds, ints, fixed, js = range(0, 25), range(0, 8), range(1, 67), [8, 64, 255, 256, 384, 512, 521, 528], range(0, 13)
        dec_any = [1, 2, 3, 8, 32, 48, 66, 132]
    obls += [Obl(M, "roundtrip", {"n": n}, "decode(encode(b)) == b, alphabet", 900) for n in rt]
    obls += [Obl(M, "decode_strict", {"n": n}, "strict decoding of all byte strings of length n", 1800) for n in ds]
    obls += [Obl(M, "int_roundtrip", {"nbytes": n}, "minimal big-endian integer codec", 1800) for n in ints]
    obls += [Obl(M, "int_decode_strict", {"n": n}, "the integer decoder refuses every text the octet decoder refuses", 1800) for n in ds if n >= 1]
    obls += [Obl(M, "int_negative", {}, "negative integers refused", 300)]
    obls += [Obl(M, "fixed_int_roundtrip", {"bits": b}, "fixed-width integer codec (R||S halves)", 1800) for b in fixed]
    obls += [Obl(M, "decode_int_any", {"nbytes": n}, "decode_int = OS2IP", 900) for n in dec_any]
    obls += [Obl(M, "json_codec", {"n": n}, "json_b64encode/json_b64decode composition", 900) for n in js]
    meta = {
        "engine": "E2 pysym: AST of the real functions interpreted over z3 bit-vectors/integers; one unsat query per path",
        "functions": ["joserfc.util.urlsafe_b64encode", "joserfc.util.urlsafe_b64decode", "joserfc.util.int_to_base64",
                      "joserfc.util.base64_to_int", "joserfc.util.to_bytes", "joserfc.util.json_b64encode",
                      "joserfc.util.json_b64decode", "joserfc.rfc7518.util.encode_int", "joserfc.rfc7518.util.decode_int"],
        "files": ["util.py", "rfc7518/util.py"],
        "bounds": {"octet strings (round trip)": "every length 0..%d, all contents" % (max(rt)),
                   "byte strings offered to the decoder": "every length 0..%d over all 256 byte values" % (max(ds)),
                   "integers": "all n with 1..%d significant octets (classes: %s); all negative n > -2^4096"
                               % (max(ints), "every length" if tier != "quick" else list(ints)),
                   "fixed-width": "all num < 2^bits for bits in %s" % list(fixed),
                   "json text": "all ASCII strings of length %s (json.dumps/loads opaque)" % list(js)},
        "outside": ["lengths beyond the bounds", "str inputs containing non-ASCII code points (they reach the byte-level decoder, "
                    "covered as bytes >= 0x80)", "acceptance of '='-padded input is not asserted either way (CPython accepts some)",
                    "non-canonical trailing bits (e.g. 'QR' decodes like 'QQ') are not asserted either way",
                    "0 is not a positive integer: int_to_base64(0) == '' is outside the statement",
                    "the JSON text produced by json.dumps (C accelerator) is opaque"],
        "stubs": ["base64.b64decode(validate=True)/binascii.a2b_base64(strict) state machine", "base64.urlsafe_b64encode",
                  "binascii.a2b_hex/b2a_hex", "struct.unpack('%dB')", "'%02x' / '%0*x' formatting", "int(str,16)",
                  "int.to_bytes/bit_length", "json.dumps/json.loads as opaque text source/sink"],
        "assumptions": ["z3 models of the C builtins are faithful (validated differentially on concrete inputs each run, not proved)",
                        "z3 4.x/5.x bit-vector and integer theories are sound", "CPython 3.12 semantics"],
    }
    return {"conds": [], "obls": obls, "meta": meta}
