"""C20 — calls sharing keys, key sets and registries are independent and thread-safe (frame condition, E1)."""
from vlib.core import Cond
from vlib import gen

BASE = "c20_frame.py"
OPS = ["jws_sign_compact", "jws_verify_compact", "jws_sign_json", "jws_verify_json", "jwe_encrypt_compact", "jwe_decrypt_compact",
       "jwe_encrypt_json", "jwe_decrypt_json", "jwt_encode", "jwt_decode", "key_export", "keyset_lookup"]


def plan(tier):
    q = tier == "quick"
    T = 300 if q else 1500
    specs = [("frame", [(o, a) for o in range(12) for a in range(6)]), ("two_ops", [(o,) for o in (range(12) if not q else (5, 10))])]
    path, names = gen.specialise(BASE, specs, "c20_gen.py")
    conds = [Cond(path, n, "main", T, "%s for operation %s" % (n.split("__")[0], OPS[int(n.split("__")[1].split("_")[0])])) for n in names]
    conds.append(Cond(BASE, "witness", "witness", 120))
    meta = {
        "engine": "E1 CrossHair: every operation kind with symbolic arguments on shared objects; deep snapshot of all shared mutable state before/after (frame condition)",
        "functions": ["all public operations of jws / jwe / jwt", "BaseKey.dict_value", "ensure_kid", "cached public_key", "KeySet.get_by_kid", "pick_random_key",
                      "JWSRegistry / JWERegistry class tables", "every algorithm model's sign/verify/encrypt/decrypt"],
        "files": ["jws.py", "jwe.py", "jwt.py", "jwk.py", "_keys.py", "rfc7515/registry.py", "rfc7516/registry.py", "rfc7517/models.py", "rfc7518/jws_algs.py",
                  "rfc7518/jwe_algs.py", "rfc7518/jwe_encs.py", "rfc7518/rsa_key.py", "rfc7518/ec_key.py", "rfc8037/okp_key.py", "rfc7516/models.py", "rfc7515/model.py"],
        "bounds": {"operation kinds": "12", "algorithms": "HS256/RS256/ES256; dir, A128KW, RSA-OAEP, ECDH-ES+A128KW, PBES2, A128GCMKW",
                   "shared keys": "oct, RSA, EC with lazy or materialised JWK view, use absent/sig/enc",
                   "sequences": "1 call (frame), the same call twice (idempotence), 2 different calls vs isolation"},
        "outside": ["explicit schedule enumeration and multi-thread stress are NOT the deciding step: thread-safety is concluded from the frame condition "
                    "(no writes to shared locations except the idempotent, atomically published lazy views)", "races inside pyca objects",
                    "the per-call freshness clause is C18's"],
        "stubs": ["ice environment"],
        "assumptions": ["a call that writes no shared location and reads only immutable-after-import state cannot be affected by, or affect, a concurrent call"],
    }
    return {"conds": conds, "obls": [], "meta": meta}
