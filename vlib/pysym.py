r"""pysym (engine E2): a small symbolic interpreter for joserfc's octet/integer kernels.

The function bodies are NOT re-written by hand: every run loads the AST of the real function from /repo/src
(through the imported function object's source file + line), and interprets it.  Concrete sub-expressions are
evaluated natively by CPython; values that depend on the symbolic inputs are

  SBytes / SStr : sequence of CONCRETE length whose items are z3 BitVec(8) terms
  SInt          : z3 Int term (Python int semantics), optionally backed by a bit-vector (for octet extraction)
  z3 BoolRef    : symbolic truth value (forks the path when branched on)

Leaf builtins implemented in C (base64/binascii/struct/%-format/int.to_bytes/hmac/...) are replaced by z3 models in
MODELS (validated against the real functions by vlib.props.c19.validate_models).  A construct outside the
supported subset raises Unsupported (-> inconclusive, never "pass").

Path exploration: decision-prefix re-execution.  Each symbolic branch asks the solver which sides are feasible
under the path condition; the untaken feasible side is queued.  At the end of a path the obligation's goal G is
checked:  pc /\ not G  unsat  => holds for every input on this path;  sat => concrete counterexample.
"""
from __future__ import annotations
import ast, inspect, types, builtins, base64, binascii, struct, time, sys, os
import z3

MAX_PATHS = 20000


class Unsupported(Exception):
    pass


class Raised(Exception):
    """A Python exception raised by the interpreted program."""
    def __init__(self, exc):
        super().__init__(repr(exc))
        self.exc = exc


class Infeasible(Exception):
    pass


class _Return(Exception):
    def __init__(self, v):
        self.v = v


class _Break(Exception):
    pass


class _Continue(Exception):
    pass


# ------------------------------------------------------------------ values

def bv8(x):
    return x if z3.is_bv(x) else z3.BitVecVal(x, 8)


class SBytes:
    """bytes (is_str=False) or str (is_str=True; code points 0..255 only) of concrete length."""
    __slots__ = ("items", "is_str")

    def __init__(self, items, is_str=False):
        self.items = [bv8(i) for i in items]
        self.is_str = is_str

    def __len__(self):
        return len(self.items)

    def __repr__(self):
        return "S%s[%d]" % ("Str" if self.is_str else "Bytes", len(self.items))


def conc_seq(v):
    if isinstance(v, SBytes):
        return v
    if isinstance(v, (bytes, bytearray)):
        return SBytes(list(v), False)
    if isinstance(v, str):
        if any(ord(c) > 255 for c in v):
            raise Unsupported("non-latin1 str constant")
        return SBytes([ord(c) for c in v], True)
    raise Unsupported("not a byte/str sequence: %r" % type(v))


class SInt:
    """Python int.  e: z3 Int term.  bv: optional BitVec with e == BV2Int(bv) (unsigned)."""
    __slots__ = ("e", "bv")

    def __init__(self, e, bv=None):
        self.e = e
        self.bv = bv

    @staticmethod
    def from_bv(bv):
        return SInt(z3.BV2Int(bv, False), bv)

    def __repr__(self):
        return "SInt(%s)" % (self.e if len(str(self.e)) < 60 else "...")


class SFloat:
    """Python float = IEEE-754 binary64 (z3 FloatingPoint sort Float64)."""
    __slots__ = ("e",)

    def __init__(self, e):
        self.e = e

    def real(self):
        return z3.fpToReal(self.e)

    def finite(self):
        return z3.And(z3.Not(z3.fpIsNaN(self.e)), z3.Not(z3.fpIsInf(self.e)))


def float_cmp(op, a, b):
    """Python comparison semantics float<->float and float<->int (exact, no rounding of the int)."""
    if isinstance(a, SFloat) and isinstance(b, (SFloat, float)):
        y = b.e if isinstance(b, SFloat) else z3.FPVal(b, z3.Float64())
        x = a.e
        return {"==": z3.fpEQ(x, y), "!=": z3.Not(z3.fpEQ(x, y)), "<": z3.fpLT(x, y), "<=": z3.fpLEQ(x, y),
                ">": z3.fpGT(x, y), ">=": z3.fpGEQ(x, y)}[op]
    if isinstance(a, SFloat):
        i = z3.ToReal(to_int_expr(b))
        x = a.e
        nan, pinf, ninf = z3.fpIsNaN(x), z3.And(z3.fpIsInf(x), z3.fpIsPositive(x)), z3.And(z3.fpIsInf(x), z3.fpIsNegative(x))
        r = a.real()
        fin = {"==": r == i, "!=": r != i, "<": r < i, "<=": r <= i, ">": r > i, ">=": r >= i}[op]
        at_pinf = {"==": False, "!=": True, "<": False, "<=": False, ">": True, ">=": True}[op]
        at_ninf = {"==": False, "!=": True, "<": True, "<=": True, ">": False, ">=": False}[op]
        at_nan = op == "!="
        return z3.If(nan, z3.BoolVal(at_nan), z3.If(pinf, z3.BoolVal(at_pinf), z3.If(ninf, z3.BoolVal(at_ninf), fin)))
    # int <op> float  ==  float <flipped op> int
    flip = {"==": "==", "!=": "!=", "<": ">", "<=": ">=", ">": "<", ">=": "<="}[op]
    return float_cmp(flip, b, a)


def is_sym(v):
    if isinstance(v, (SBytes, SInt, SFloat)) or isinstance(v, z3.ExprRef):
        return True
    if isinstance(v, (tuple, list)):
        return any(is_sym(x) for x in v)
    if isinstance(v, dict):
        return any(is_sym(x) for x in v.values())
    return False


def to_int_expr(v):
    if isinstance(v, SInt):
        return v.e
    if isinstance(v, bool):
        return z3.IntVal(int(v))
    if isinstance(v, int):
        return z3.IntVal(v)
    if z3.is_bv(v):
        return z3.BV2Int(v, False)
    raise Unsupported("int expected: %r" % type(v))


def _bvpair(a, b):
    """If both ints can be represented as unsigned bit-vectors, return them zero-extended to a common width."""
    def as_bv(x):
        if isinstance(x, SInt):
            return x.bv
        if isinstance(x, bool):
            x = int(x)
        if isinstance(x, int) and x >= 0:
            return z3.BitVecVal(x, max(x.bit_length(), 1))
        return None
    x, y = as_bv(a), as_bv(b)
    if x is None or y is None:
        return None
    w = max(x.size(), y.size())
    if x.size() < w:
        x = z3.ZeroExt(w - x.size(), x)
    if y.size() < w:
        y = z3.ZeroExt(w - y.size(), y)
    return x, y


def int_cmp(op, a, b):
    """z3 Bool / bool for `a op b` on Python ints; bit-vector comparison when both sides are bit-vector backed
    (z3 is slow on mixed Int/BV reasoning), integer comparison otherwise.  op in '== != < <= > >='."""
    if isinstance(a, SInt) and a.bv is not None and isinstance(b, int) and not isinstance(b, bool) and b < 0:
        return {"==": False, "!=": True, "<": False, "<=": False, ">": True, ">=": True}[op]
    if isinstance(b, SInt) and b.bv is not None and isinstance(a, int) and not isinstance(a, bool) and a < 0:
        return {"==": False, "!=": True, "<": True, "<=": True, ">": False, ">=": False}[op]
    pr = _bvpair(a, b)
    if pr is not None:
        x, y = pr
        return {"==": x == y, "!=": x != y, "<": z3.ULT(x, y), "<=": z3.ULE(x, y), ">": z3.UGT(x, y), ">=": z3.UGE(x, y)}[op]
    x, y = to_int_expr(a), to_int_expr(b)
    return {"==": x == y, "!=": x != y, "<": x < y, "<=": x <= y, ">": x > y, ">=": x >= y}[op]


def seq_eq(a, b):
    """z3 Bool: two sequences (SBytes/bytes/str) are equal (False when length or str/bytes kind differs)."""
    a, b = conc_seq(a), conc_seq(b)
    if a.is_str != b.is_str or len(a) != len(b):
        return z3.BoolVal(False)
    if not a.items:
        return z3.BoolVal(True)
    return z3.And(*[x == y for x, y in zip(a.items, b.items)])


def os2ip(items):
    """z3 Int value of big-endian octets."""
    items = [bv8(i) for i in items]
    if not items:
        return SInt(z3.IntVal(0), z3.BitVecVal(0, 8))
    return SInt.from_bv(z3.Concat(*items) if len(items) > 1 else items[0])


# ------------------------------------------------------------------ path context

class Ctx:
    def __init__(self, prefix=(), timeout_ms=60000):
        self.solver = z3.Solver()
        self.solver.set("timeout", timeout_ms)
        self.prefix = list(prefix)
        self.pos = 0
        self.pc = []
        self.worklist = []
        self.queries = 0
        self.unknown = 0
        self.log = []          # obligation-specific records (primitive calls etc.)
        self.fresh = 0

    def assume(self, cond):
        self.pc.append(cond)
        self.solver.add(cond)

    def _feasible(self, cond):
        self.solver.push()
        self.solver.add(cond)
        r = self.solver.check()
        self.solver.pop()
        self.queries += 1
        if r == z3.unknown:
            self.unknown += 1
            raise Unsupported("solver unknown on branch feasibility")
        return r == z3.sat

    def branch(self, cond) -> bool:
        if isinstance(cond, bool):
            return cond
        cond = z3.simplify(cond)
        if z3.is_true(cond):
            return True
        if z3.is_false(cond):
            return False
        if self.pos < len(self.prefix):
            d = self.prefix[self.pos][0]
        else:
            t = self._feasible(cond)
            f = self._feasible(z3.Not(cond))
            if t and f:
                self.worklist.append(self.prefix[:self.pos] + [(False, None)])
                d = True
            elif t:
                d = True
            elif f:
                d = False
            else:
                raise Infeasible()
            self.prefix.append((d, None))
        self.pos += 1
        self.assume(cond if d else z3.Not(cond))
        return d

    def concretize(self, e, lo=None, hi=None) -> int:
        """Fork over the feasible concrete values of integer term e."""
        e = z3.simplify(e)
        if z3.is_int_value(e):
            return e.as_long()
        while True:
            if self.pos < len(self.prefix):
                d, v = self.prefix[self.pos]
            else:
                self.solver.push()
                if lo is not None:
                    self.solver.add(e >= lo)
                if hi is not None:
                    self.solver.add(e <= hi)
                r = self.solver.check()
                self.queries += 1
                if r == z3.unknown:
                    self.solver.pop()
                    self.unknown += 1
                    raise Unsupported("solver unknown on concretize")
                if r == z3.unsat:
                    self.solver.pop()
                    # value outside [lo,hi] only: treat as outside the bound -> path ends
                    raise Infeasible()
                v = self.solver.model().eval(e, model_completion=True).as_long()
                self.solver.pop()
                other = self._feasible(e != v)
                d = True
                if other:
                    self.worklist.append(self.prefix[:self.pos] + [(False, v)])
                self.prefix.append((d, v))
            self.pos += 1
            if d:
                self.assume(e == v)
                return v
            self.assume(e != v)

    def fresh_bytes(self, n, tag="u"):
        self.fresh += 1
        return SBytes([z3.BitVec("%s%d_%d" % (tag, self.fresh, i), 8) for i in range(n)])


# ------------------------------------------------------------------ z3 models of C-level leaves

STD = b"ABCDEFGHIJKLMNOPQRSTUVWXYZabcdefghijklmnopqrstuvwxyz0123456789+/"
URL = b"ABCDEFGHIJKLMNOPQRSTUVWXYZabcdefghijklmnopqrstuvwxyz0123456789-_"
HEX = b"0123456789abcdef"


# Provenance of table look-ups: lut(idx, table) is, by construction, a member of `table` whose index is `idx`.
# Remembering that (keyed by the z3 AST id, the term itself is kept alive in the entry) lets the models answer
# "is this character '='?", "which sextet/nibble does it stand for?" syntactically instead of asking the solver to
# invert a 64-way If-chain.  Sound: only facts that hold for every value of idx are used.
PROV = {}


def lut(idx, table, width):
    r = z3.BitVecVal(table[-1], 8)
    for i in range(len(table) - 2, -1, -1):
        r = z3.If(idx == z3.BitVecVal(i, width), z3.BitVecVal(table[i], 8), r)
    PROV[r.get_id()] = (r, idx, bytes(table))
    return r


def prov(c):
    e = PROV.get(c.get_id()) if z3.is_expr(c) else None
    if e is not None and e[0].eq(c):
        return e[1], e[2]
    return None


def char_is(c, k):
    """z3 Bool: octet term c equals constant k (decided syntactically when c is a table look-up)."""
    pv = prov(c)
    if pv is not None and k not in pv[1]:
        return z3.BoolVal(False)
    return c == k


def in_set(c, chars):
    pv = prov(c)
    if pv is not None:
        if set(pv[1]) <= set(chars):
            return z3.BoolVal(True)
        if not (set(pv[1]) & set(chars)):
            return z3.BoolVal(False)
    return z3.Or(*[c == k for k in chars])


def is_ascii(c):
    pv = prov(c)
    if pv is not None and all(k < 128 for k in pv[1]):
        return z3.BoolVal(True)
    return z3.ULT(c, 128)


def b64_value(c, table):
    v = z3.BitVecVal(0, 6)
    for k in range(64):
        v = z3.If(c == table[k], z3.BitVecVal(k, 6), v)
    return v


def _b64encode_with(s, table):
    s = conc_seq(s)
    out = []
    for i in range(0, len(s), 3):
        ch = s.items[i:i + 3]
        n = len(ch)
        bits = z3.Concat(*ch) if n > 1 else ch[0]
        pad = (-(8 * n)) % 6
        if pad:
            bits = z3.Concat(bits, z3.BitVecVal(0, pad))
        tot = 8 * n + pad
        for j in range(tot // 6):
            out.append(lut(z3.Extract(tot - 1 - 6 * j, tot - 6 - 6 * j, bits), table, 6))
        out += [z3.BitVecVal(61, 8)] * (4 - tot // 6)
    return SBytes(out)


def m_urlsafe_b64encode(it, args, kw):
    return _b64encode_with(args[0], URL)


def m_b64encode(it, args, kw):
    if len(args) > 1 or kw:
        raise Unsupported("b64encode altchars")
    return _b64encode_with(args[0], STD)


def m_b64decode(it, args, kw):
    """base64.b64decode(s, altchars, validate=True) of CPython 3.12 = bytes.translate + binascii.a2b_base64(strict_mode=True)."""
    s = args[0]
    altchars = args[1] if len(args) > 1 else kw.get("altchars")
    validate = args[2] if len(args) > 2 else kw.get("validate", False)
    if validate is not True:
        raise Unsupported("b64decode without validate=True is not modelled")
    s = conc_seq(s)
    if s.is_str:
        raise Unsupported("b64decode of str")
    items = s.items
    if altchars is not None:
        if is_sym(altchars) or len(altchars) != 2:
            raise Unsupported("altchars")
        a0, a1 = altchars[0], altchars[1]
        new = []
        for c in items:
            pv = prov(c)
            if pv is not None and pv[1] == URL and bytes([a0, a1]) == b"-_":
                # translate maps the URL-safe alphabet onto the standard one index by index
                new.append(lut(pv[0], STD, 6))
            else:
                new.append(z3.If(c == a0, z3.BitVecVal(ord("+"), 8), z3.If(c == a1, z3.BitVecVal(ord("/"), 8), c)))
        items = new
    return a2b_base64_strict(it.ctx, items)


def a2b_base64_strict(ctx, items):
    """State machine of CPython 3.12 Modules/binascii.c:binascii_a2b_base64_impl with strict_mode=1."""
    n = len(items)
    vals = []
    quad_pos = 0
    pads = 0
    padding_started = False
    if n > 0 and ctx.branch(char_is(items[0], 61)):
        raise Raised(binascii.Error("Leading padding not allowed"))
    i = 0
    while i < n:
        c = items[i]
        if ctx.branch(char_is(c, 61)):
            padding_started = True
            if quad_pos >= 2:
                pads += 1
                if quad_pos + pads >= 4:
                    # a complete quad: anything after it is "Excess data after padding"
                    if i + 1 < n:
                        raise Raised(binascii.Error("Excess data after padding not allowed"))
                    break
            i += 1
            continue
        if not ctx.branch(in_set(c, STD)):
            raise Raised(binascii.Error("Only base64 data is allowed"))
        if padding_started:
            raise Raised(binascii.Error("Discontinuous padding not allowed"))
        pads = 0
        pv = prov(c)
        vals.append(pv[0] if pv is not None and pv[1] == STD else b64_value(c, STD))
        quad_pos = (quad_pos + 1) & 3
        i += 1
    else:
        pass
    done = quad_pos != 0 and quad_pos + pads >= 4
    if quad_pos != 0 and not done:
        if quad_pos == 1:
            raise Raised(binascii.Error("Invalid base64-encoded string: number of data characters (%d) cannot be 1 more "
                                        "than a multiple of 4" % len(vals)))
        raise Raised(binascii.Error("Incorrect padding"))
    if not vals:
        return SBytes([])
    bits = z3.Concat(*vals) if len(vals) > 1 else vals[0]
    tot = 6 * len(vals)
    return SBytes([z3.Extract(tot - 1 - 8 * j, tot - 8 - 8 * j, bits) for j in range(tot // 8)])


def a2b_base64_lenient(ctx, items):
    """binascii.a2b_base64(strict_mode=False) of CPython 3.12: characters outside the alphabet are skipped, a complete pad
    sequence ends the data, leftover sextets are an error."""
    vals = []
    quad_pos = 0
    pads = 0
    for c in items:
        if ctx.branch(char_is(c, 61)):
            if quad_pos >= 2:
                pads += 1
                if quad_pos + pads >= 4:
                    quad_pos = 0
                    break
            continue
        if not ctx.branch(in_set(c, STD)):
            continue
        pads = 0
        pv = prov(c)
        vals.append(pv[0] if pv is not None and pv[1] == STD else b64_value(c, STD))
        quad_pos = (quad_pos + 1) & 3
    if quad_pos != 0:
        if quad_pos == 1:
            raise Raised(binascii.Error("Invalid base64-encoded string: number of data characters (%d) cannot be 1 more than a multiple of 4" % len(vals)))
        raise Raised(binascii.Error("Incorrect padding"))
    if not vals:
        return SBytes([])
    bits = z3.Concat(*vals) if len(vals) > 1 else vals[0]
    tot = 6 * len(vals)
    return SBytes([z3.Extract(tot - 1 - 8 * j, tot - 8 - 8 * j, bits) for j in range(tot // 8)])


def _translate_url(items):
    new = []
    for c in items:
        pv = prov(c)
        if pv is not None and pv[1] == URL:
            new.append(lut(pv[0], STD, 6))
        else:
            new.append(z3.If(c == ord("-"), z3.BitVecVal(ord("+"), 8), z3.If(c == ord("_"), z3.BitVecVal(ord("/"), 8), c)))
    return new


def m_urlsafe_b64decode(it, args, kw):
    """base64.urlsafe_b64decode(s) = b64decode(s.translate(-_ -> +/)) with validate=False"""
    s = conc_seq(args[0])
    return a2b_base64_lenient(it.ctx, _translate_url(s.items))


def m_b64decode_any(it, args, kw):
    validate = args[2] if len(args) > 2 else kw.get("validate", False)
    if validate is True:
        return m_b64decode(it, args, kw)
    s = conc_seq(args[0])
    altchars = args[1] if len(args) > 1 else kw.get("altchars")
    items = s.items
    if altchars is not None:
        if is_sym(altchars) or bytes(altchars) != b"-_":
            raise Unsupported("altchars")
        items = _translate_url(items)
    return a2b_base64_lenient(it.ctx, items)


class SPattern:
    """re patterns of the form  ^? [class](*|+) ($|\\Z)?  on symbolic bytes / str (enough for alphabet checks)"""
    def __init__(self, pat):
        import re
        try:
            import re._parser as sre_parse
        except ImportError:  # pragma: no cover
            import sre_parse
        self.pat = pat
        p = list(sre_parse.parse(pat.pattern, pat.flags))
        self.anchored_start = bool(p) and str(p[0][0]) == "AT" and str(p[0][1]) in ("AT_BEGINNING", "AT_BEGINNING_STRING")
        if self.anchored_start:
            p = p[1:]
        self.end = None
        if p and str(p[-1][0]) == "AT" and str(p[-1][1]) in ("AT_END", "AT_END_STRING"):
            self.end = str(p[-1][1])
            p = p[:-1]
        if len(p) != 1 or str(p[0][0]) not in ("MAX_REPEAT", "MIN_REPEAT"):
            raise Unsupported("regex %r" % pat.pattern)
        lo, hi, body = p[0][1]
        body = list(body)
        if len(body) != 1 or str(body[0][0]) != "IN":
            raise Unsupported("regex %r" % pat.pattern)
        self.lo, self.hi = lo, hi
        chars = set()
        for op, av in body[0][1]:
            if str(op) == "LITERAL":
                chars.add(av)
            elif str(op) == "RANGE":
                chars.update(range(av[0], av[1] + 1))
            else:
                raise Unsupported("regex class %r" % (op,))
        self.chars = sorted(c for c in chars if c < 256)

    def cond(self, s, full):
        s = conc_seq(s)
        n = len(s)
        inn = [in_set(c, self.chars) for c in s.items]

        def allin(k):
            return z3.And(*inn[:k]) if k else z3.BoolVal(True)
        alts = []
        if self.end is None and not full:
            # match(): a prefix of at least `lo` class characters suffices
            return allin(self.lo) if n >= self.lo else z3.BoolVal(False)
        if n >= self.lo:
            alts.append(allin(n))
        if self.end == "AT_END" and not full and n >= 1 and n - 1 >= self.lo:
            alts.append(z3.And(allin(n - 1), s.items[-1] == 10))          # '$' also matches before a trailing newline
        return z3.Or(*alts) if alts else z3.BoolVal(False)


def m_pattern_match(it, args, kw):
    return SPattern(args[0]).cond(args[1], False)


def m_pattern_fullmatch(it, args, kw):
    return SPattern(args[0]).cond(args[1], True)


def hex_digit(nib):
    return lut(nib, HEX, 4)


def hex_value(ctx, c):
    """nibble of an ASCII hex digit c (either case); forks to ValueError when c is not a hex digit."""
    pv = prov(c)
    if pv is not None and pv[1] == HEX:
        return pv[0]
    ok = z3.Or(z3.And(z3.UGE(c, 48), z3.ULE(c, 57)), z3.And(z3.UGE(c, 97), z3.ULE(c, 102)), z3.And(z3.UGE(c, 65), z3.ULE(c, 70)))
    if not ctx.branch(ok):
        return None
    v = z3.If(z3.ULE(c, 57), c - 48, z3.If(z3.UGE(c, 97), c - 87, c - 55))
    return z3.Extract(3, 0, v)


def m_a2b_hex(it, args, kw):
    s = conc_seq(args[0])
    if len(s) % 2:
        raise Raised(binascii.Error("Odd-length string"))
    out = []
    for i in range(0, len(s), 2):
        hi = hex_value(it.ctx, s.items[i])
        lo = hex_value(it.ctx, s.items[i + 1]) if hi is not None else None
        if hi is None or lo is None:
            raise Raised(binascii.Error("Non-hexadecimal digit found"))
        out.append(z3.Concat(hi, lo))
    return SBytes(out)


def m_b2a_hex(it, args, kw):
    s = conc_seq(args[0])
    if len(args) > 1 or kw:
        raise Unsupported("b2a_hex sep")
    out = []
    for c in s.items:
        out.append(hex_digit(z3.Extract(7, 4, c)))
        out.append(hex_digit(z3.Extract(3, 0, c)))
    return SBytes(out)


def m_int(it, args, kw):
    if len(args) == 1 and not kw:
        v = args[0]
        if isinstance(v, SInt):
            return v
        if isinstance(v, SFloat):
            if it.ctx.branch(z3.fpIsNaN(v.e)):
                raise Raised(ValueError("cannot convert float NaN to integer"))
            if it.ctx.branch(z3.fpIsInf(v.e)):
                raise Raised(OverflowError("cannot convert float infinity to integer"))
            r = v.real()
            return SInt(z3.If(r >= 0, z3.ToInt(r), -z3.ToInt(-r)))    # truncation toward zero
        raise Unsupported("int(sym)")
    s, base = args[0], args[1] if len(args) > 1 else kw.get("base")
    if base != 16:
        raise Unsupported("int base %r" % (base,))
    s = conc_seq(s)
    if len(s) == 0:
        raise Raised(ValueError("invalid literal for int() with base 16: ''"))
    nibs = []
    for c in s.items:
        v = hex_value(it.ctx, c)
        if v is None:
            # (whitespace / sign / underscore / 0x prefixes are not produced by the kernels; a non-hex char ends here)
            raise Raised(ValueError("invalid literal for int() with base 16"))
        nibs.append(v)
    bvv = z3.Concat(*nibs) if len(nibs) > 1 else nibs[0]
    return SInt.from_bv(bvv)


def m_struct_pack(it, args, kw):
    fmt = args[0]
    if is_sym(fmt):
        raise Unsupported("symbolic struct format")
    if fmt == ">I" and len(args) == 2:
        v = args[1]
        e = to_int_expr(v)
        if not it.ctx.branch(z3.And(e >= 0, e < 2 ** 32)):
            raise Raised(struct.error("'I' format requires 0 <= number <= 4294967295"))
        b = z3.Int2BV(e, 32)
        return SBytes([z3.Extract(31 - 8 * j, 24 - 8 * j, b) for j in range(4)])
    raise Unsupported("struct.pack(%r)" % (fmt,))


def m_struct_unpack(it, args, kw):
    fmt, data = args
    if is_sym(fmt):
        raise Unsupported("symbolic struct format")
    data = conc_seq(data)
    import re
    m = re.fullmatch(r"(\d*)B", fmt)
    if not m:
        raise Unsupported("struct.unpack(%r)" % (fmt,))
    n = int(m.group(1)) if m.group(1) else 1
    if n != len(data):
        raise Raised(struct.error("unpack requires a buffer of %d bytes" % n))
    return tuple(SInt.from_bv(c) for c in data.items)


def m_len(it, args, kw):
    v = args[0]
    if isinstance(v, SBytes):
        return len(v)
    return len(v)


def m_isinstance(it, args, kw):
    v, t = args
    ts = t if isinstance(t, tuple) else (t,)
    if isinstance(v, SBytes):
        return (str if v.is_str else bytes) in ts or object in ts
    if isinstance(v, SInt):
        return int in ts or object in ts
    if isinstance(v, SFloat):
        return float in ts or object in ts
    if z3.is_bool(v):
        return bool in ts or int in ts or object in ts
    return isinstance(v, t)


def m_bytes(it, args, kw):
    if len(args) == 1 and isinstance(args[0], SBytes) and not args[0].is_str:
        return args[0]
    if len(args) == 1 and isinstance(args[0], (list, tuple)):
        return SBytes([x.bv if isinstance(x, SInt) and x.bv is not None and x.bv.size() == 8 else x for x in args[0]])
    raise Unsupported("bytes(sym)")


def m_bool(it, args, kw):
    return it.truth(args[0])


class HmacRec:
    """hmac.new(key, msg, digestmod): uninterpreted function of (key, msg, digestmod); output = digest_size fresh octets,
    equal for equal (key, msg, digestmod) (functional consistency added as path constraints)."""
    __pysym_opaque__ = True

    def __init__(self, it, key, msg, dig):
        import hashlib
        self.key, self.msg, self.dig = conc_seq(key), conc_seq(msg), dig
        h = dig() if callable(dig) else hashlib.new(dig)
        self.size = h.digest_size
        self.out = it.ctx.fresh_bytes(self.size, "mac")
        for (k2, m2, d2, o2) in it.ctx.log_of("hmac"):
            if d2 is dig or (not callable(dig) and d2 == dig):
                same = z3.And(seq_eq(self.key, k2), seq_eq(self.msg, m2))
                it.ctx.assume(z3.Implies(same, seq_eq(self.out, o2)))
        it.ctx.log.append(("hmac", (self.key, self.msg, dig, self.out)))

    def digest(self):
        return self.out


def _log_of(self, tag):
    return [x[1] for x in self.log if x[0] == tag]


Ctx.log_of = _log_of


def m_hmac_new(it, args, kw):
    key = args[0]
    msg = args[1] if len(args) > 1 else kw.get("msg")
    dig = args[2] if len(args) > 2 else kw.get("digestmod")
    return HmacRec(it, key, msg, dig)


def m_compare_digest(it, args, kw):
    a, b = args
    it.ctx.log.append(("compare_digest", (conc_seq(a), conc_seq(b))))
    return seq_eq(a, b)


def m_int_from_bytes(it, args, kw):
    data = args[0]
    byteorder = args[1] if len(args) > 1 else kw.get("byteorder", "big")
    if not isinstance(data, SBytes):
        return int.from_bytes(data, byteorder, signed=kw.get("signed", False))
    if kw.get("signed", False) or byteorder not in ("big", "little") or data.is_str:
        raise Unsupported("int.from_bytes(signed / other byte order / str)")
    return os2ip(data.items if byteorder == "big" else list(reversed(data.items)))


import hmac as _hmac
import re as _re
MODELS = {
    int.from_bytes: m_int_from_bytes,
    base64.b64decode: m_b64decode_any,
    base64.urlsafe_b64decode: m_urlsafe_b64decode,
    _re.Pattern.match: m_pattern_match,
    _re.Pattern.fullmatch: m_pattern_fullmatch,
    base64.urlsafe_b64encode: m_urlsafe_b64encode,
    base64.b64encode: m_b64encode,
    binascii.a2b_hex: m_a2b_hex,
    binascii.unhexlify: m_a2b_hex,
    binascii.b2a_hex: m_b2a_hex,
    binascii.hexlify: m_b2a_hex,
    struct.pack: m_struct_pack,
    struct.unpack: m_struct_unpack,
    builtins.len: m_len,
    builtins.isinstance: m_isinstance,
    builtins.int: m_int,
    builtins.bytes: m_bytes,
    builtins.bool: m_bool,
    _hmac.new: m_hmac_new,
    _hmac.compare_digest: m_compare_digest,
}

# ------------------------------------------------------------------ the interpreter

_AST_CACHE = {}


def func_ast(f):
    """FunctionDef node of the real function object f, parsed from its source file (fresh per process)."""
    code = f.__code__
    path = code.co_filename
    if path not in _AST_CACHE:
        _AST_CACHE[path] = ast.parse(open(path).read(), path)
    tree = _AST_CACHE[path]
    for node in ast.walk(tree):
        if isinstance(node, (ast.FunctionDef,)) and node.name == f.__name__:
            first = min([node.lineno] + [d.lineno for d in node.decorator_list])
            if first == code.co_firstlineno or node.lineno == code.co_firstlineno:
                return node
    raise Unsupported("no AST for %s" % f)


def interpretable(f):
    return isinstance(f, types.FunctionType) and (f.__module__ or "").startswith("joserfc") and \
        os.path.realpath(f.__code__.co_filename).startswith(os.path.realpath(os.environ.get("VERIF_REPO", "/repo")))


class Interp:
    def __init__(self, ctx: Ctx, extra_models=None, interpret_concrete=True):
        self.ctx = ctx
        self.models = dict(MODELS)
        if extra_models:
            self.models.update(extra_models)
        self.entered = set()
        self.depth = 0

    # ---- calling
    def call(self, f, *args, **kw):
        return self.apply(f, list(args), kw)

    def apply(self, f, args, kw):
        if isinstance(f, types.MethodType):
            if f.__func__ in self.models:
                return self.models[f.__func__](self, [f.__self__] + args, kw)
            if interpretable(f.__func__):
                return self.run_function(f.__func__, [f.__self__] + args, kw)
        if isinstance(f, SymMethod):
            return f(self, args, kw)
        try:
            model = self.models.get(f)
        except TypeError:
            model = None
        if model is not None:
            return model(self, args, kw)
        if interpretable(f):
            return self.run_function(f, args, kw)
        if isinstance(f, type) and issubclass(f, BaseException):
            if is_sym(args):
                args = ["<symbolic>"]
            return f(*args, **kw)
        if isinstance(f, types.BuiltinMethodType) and isinstance(getattr(f, "__self__", None), _re.Pattern) and (is_sym(args) or is_sym(kw)):
            m = self.models.get(getattr(_re.Pattern, f.__name__, None))
            if m is not None:
                return m(self, [f.__self__] + args, kw)
        if isinstance(f, types.BuiltinMethodType) and isinstance(getattr(f, "__self__", None), (str, bytes)) \
                and (is_sym(args) or is_sym(kw)):
            return SymMethod(conc_seq(f.__self__), f.__name__)(self, args, kw)
        if getattr(f, "__pysym_native__", False) or not (is_sym(args) or is_sym(kw)):
            try:
                return f(*args, **kw)
            except (Unsupported, Raised, Infeasible, _Return):
                raise
            except Exception as e:
                raise Raised(e)
        raise Unsupported("call of %r with symbolic arguments" % (getattr(f, "__qualname__", f),))

    def run_function(self, f, args, kw):
        node = func_ast(f)
        self.entered.add("%s.%s" % (f.__module__, f.__qualname__))
        a = node.args
        if a.vararg or a.kwarg or a.posonlyargs:
            raise Unsupported("varargs in %s" % f.__name__)
        env = {}
        params = [p.arg for p in a.args]
        if len(args) > len(params):
            raise Raised(TypeError("too many positional arguments for %s" % f.__name__))
        for p, v in zip(params, args):
            env[p] = v
        defaults = f.__defaults__ or ()
        kwdefaults = f.__kwdefaults__ or {}
        for i, p in enumerate(params[len(args):], start=len(args)):
            if p in kw:
                env[p] = kw.pop(p)
            else:
                di = i - (len(params) - len(defaults))
                if di < 0:
                    raise Raised(TypeError("missing argument %s for %s" % (p, f.__name__)))
                env[p] = defaults[di]
        for p in a.kwonlyargs:
            if p.arg in kw:
                env[p.arg] = kw.pop(p.arg)
            elif p.arg in kwdefaults:
                env[p.arg] = kwdefaults[p.arg]
            else:
                raise Raised(TypeError("missing kw-only argument"))
        if kw:
            raise Raised(TypeError("unexpected keyword arguments %s" % list(kw)))
        cls = None
        qn = f.__qualname__.split(".")
        if len(qn) >= 2 and qn[-2] != "<locals>":
            cls = qn[-2]
        frame = Frame(self, f.__globals__, env, cls)
        self.depth += 1
        if self.depth > 60:
            raise Unsupported("recursion too deep")
        try:
            for st in node.body:
                frame.ex(st)
        except _Return as r:
            return r.v
        finally:
            self.depth -= 1
        return None

    def truth(self, v):
        if isinstance(v, bool):
            return v
        if z3.is_bool(v):
            return self.ctx.branch(v)
        if isinstance(v, SBytes):
            return len(v) > 0
        if isinstance(v, SInt):
            return self.ctx.branch(int_cmp("!=", v, 0))
        if isinstance(v, SFloat):
            return self.ctx.branch(z3.Not(z3.fpIsZero(v.e)))
        if is_sym(v):
            if isinstance(v, (tuple, list, dict)):
                return len(v) > 0
            raise Unsupported("truth of %r" % (v,))
        return bool(v)


class SymMethod:
    def __init__(self, obj, name):
        self.obj, self.name = obj, name

    def __call__(self, it, args, kw):
        fn = getattr(self, "m_" + self.name, None)
        if fn is None:
            raise Unsupported("method %s on %r" % (self.name, self.obj))
        return fn(it, *args, **kw)

    # ---- bytes / str methods
    def m_rstrip(self, it, chars=None):
        o = self.obj
        if chars is None or is_sym(chars):
            raise Unsupported("rstrip()")
        cs = list(chars.encode("latin1") if isinstance(chars, str) else chars)
        items = list(o.items)
        while items and it.ctx.branch(in_set(items[-1], cs)):  # in_set is syntactic for table look-ups
            items.pop()
        return SBytes(items, o.is_str)

    def m_lstrip(self, it, chars=None):
        o = self.obj
        if chars is None or is_sym(chars):
            raise Unsupported("lstrip()")
        cs = list(chars.encode("latin1") if isinstance(chars, str) else chars)
        items = list(o.items)
        while items and it.ctx.branch(in_set(items[0], cs)):
            items.pop(0)
        return SBytes(items, o.is_str)

    def _just(self, it, width, fill, left):
        o = self.obj
        if is_sym(width):
            width = it.ctx.concretize(width) if hasattr(it.ctx, "concretize") else None
        if not isinstance(width, int):
            raise Unsupported("rjust/ljust with a symbolic width")
        f = conc_seq(fill if fill is not None else (" " if o.is_str else b" "))
        if len(f) != 1:
            raise Raised(TypeError("The fill character must be exactly one character long"))
        pad = [f.items[0]] * max(0, width - len(o.items))
        return SBytes((pad + list(o.items)) if left else (list(o.items) + pad), o.is_str)

    def m_rjust(self, it, width, fill=None):
        return self._just(it, width, fill, True)

    def m_ljust(self, it, width, fill=None):
        return self._just(it, width, fill, False)

    def m_zfill(self, it, width):
        return self._just(it, width, "0" if self.obj.is_str else b"0", True)

    def m_strip(self, it, chars=None):
        left = self.m_lstrip(it, chars)
        return SymMethod(left, "rstrip").m_rstrip(it, chars)

    def m_startswith(self, it, prefix):
        o = self.obj
        if isinstance(prefix, tuple):
            conds = [SymMethod(o, "startswith").m_startswith_expr(p) for p in prefix]
            return z3.Or(*conds) if conds else False
        return self.m_startswith_expr(prefix)

    def m_startswith_expr(self, prefix):
        o = self.obj
        p = conc_seq(prefix)
        if len(p) > len(o):
            return z3.BoolVal(False)
        return seq_eq(SBytes(o.items[:len(p)], o.is_str), SBytes(p.items, o.is_str)) if p.is_str == o.is_str else z3.BoolVal(False)

    def m_encode(self, it, charset="utf-8", errors="strict"):
        o = self.obj
        if not o.is_str:
            raise Raised(AttributeError("'bytes' object has no attribute 'encode'"))
        cs = charset.lower().replace("_", "-")
        if cs not in ("utf-8", "utf8", "ascii"):
            raise Unsupported("encode(%s)" % charset)
        for c in o.items:
            if not it.ctx.branch(is_ascii(c)):
                if cs == "ascii":
                    raise Raised(UnicodeEncodeError("ascii", "?", 0, 1, "ordinal not in range(128)"))
                raise Unsupported("utf-8 encoding of a non-ASCII code point (outside the stated bound)")
        return SBytes(o.items, False)

    def m_decode(self, it, charset="utf-8", errors="strict"):
        o = self.obj
        if o.is_str:
            raise Raised(AttributeError("'str' object has no attribute 'decode'"))
        cs = charset.lower().replace("_", "-")
        if cs not in ("utf-8", "utf8", "ascii"):
            raise Unsupported("decode(%s)" % charset)
        for c in o.items:
            if not it.ctx.branch(is_ascii(c)):
                if cs == "ascii":
                    raise Raised(UnicodeDecodeError("ascii", b"?", 0, 1, "ordinal not in range(128)"))
                raise Unsupported("utf-8 decoding of a non-ASCII octet (outside the stated bound)")
        return SBytes(o.items, True)

    def m_join(self, it, parts):
        o = self.obj
        out = []
        parts = list(parts)
        for i, p in enumerate(parts):
            if i:
                out += o.items
            out += conc_seq(p).items
        return SBytes(out, o.is_str)

    def m_hex(self, it):
        return m_b2a_hex(it, [self.obj], {})

    # ---- int methods
    def m_bit_length(self, it):
        o = self.obj
        if o.bv is None:
            raise Unsupported("bit_length of unbounded int")
        w = o.bv.size()
        r = z3.IntVal(0)
        for k in range(1, w + 1):
            # bit_length >= k  <=>  x >= 2^(k-1)
            r = z3.If(z3.UGE(o.bv, z3.BitVecVal(1 << (k - 1), w)), z3.IntVal(k), r)
        return SInt(r)

    def m_to_bytes(self, it, length=1, byteorder="big", signed=False):
        o = self.obj
        if byteorder != "big" or signed:
            raise Unsupported("to_bytes little/signed")
        if isinstance(length, SInt):
            length = it.ctx.concretize(length.e, 0, 4096)
        if it.ctx.branch(int_cmp("<", o, 0)):
            raise Raised(OverflowError("can't convert negative int to unsigned"))
        if not it.ctx.branch(int_cmp("<", o, 2 ** (8 * length))):
            raise Raised(OverflowError("int too big to convert"))
        if length == 0:
            return SBytes([])
        if o.bv is not None:
            w = o.bv.size()
            b = o.bv
            if w < 8 * length:
                b = z3.ZeroExt(8 * length - w, b)
            elif w > 8 * length:
                b = z3.Extract(8 * length - 1, 0, b)
        else:
            b = z3.Int2BV(o.e, 8 * length)
        n = 8 * length
        return SBytes([z3.Extract(n - 1 - 8 * j, n - 8 - 8 * j, b) for j in range(length)])


def percent_format(it, fmt, arg):
    """'%02x' % int, '%0*x' % (width, int), '%sB' % concrete."""
    if is_sym(fmt):
        raise Unsupported("symbolic format string")
    args = arg if isinstance(arg, tuple) else (arg,)
    if not is_sym(args):
        try:
            return fmt % arg
        except Exception as e:
            raise Raised(e)
    import re
    m = re.fullmatch(r"%0(\d+|\*)x", fmt)
    if not m:
        raise Unsupported("format %r with symbolic args" % fmt)
    if m.group(1) == "*":
        width, num = args
        if isinstance(width, SInt):
            width = it.ctx.concretize(width.e, 0, 4096)
    else:
        width, (num,) = int(m.group(1)), args
    if not isinstance(num, SInt):
        raise Unsupported("%x of non-int")
    if it.ctx.branch(int_cmp("<", num, 0)):
        raise Unsupported("%x of a negative symbolic int")
    if num.bv is None:
        raise Unsupported("%x of unbounded int")
    w = num.bv.size()
    # number of hex digits needed: fork when the value does not fit the requested width
    if w > 4 * width:
        if not it.ctx.branch(int_cmp("<", num, 16 ** width)):
            ndig = it.ctx.concretize(SymMethod(num, "bit_length").m_bit_length(it).e, 4 * width + 1, w)
            ndig = (ndig + 3) // 4
        else:
            ndig = width
    else:
        ndig = width
    ndig = max(ndig, 1)
    b = num.bv
    if w < 4 * ndig:
        b = z3.ZeroExt(4 * ndig - w, b)
    elif w > 4 * ndig:
        b = z3.Extract(4 * ndig - 1, 0, b)
    n = 4 * ndig
    return SBytes([hex_digit(z3.Extract(n - 1 - 4 * j, n - 4 - 4 * j, b)) for j in range(ndig)], True)


class Frame:
    def __init__(self, it: Interp, globs, env, cls):
        self.it, self.globs, self.env, self.cls = it, globs, env, cls

    # ---- statements
    def ex(self, st):
        it = self.it
        if isinstance(st, ast.Return):
            raise _Return(self.ev(st.value) if st.value is not None else None)
        if isinstance(st, ast.Expr):
            self.ev(st.value)
            return
        if isinstance(st, ast.Assign):
            v = self.ev(st.value)
            for t in st.targets:
                self.assign(t, v)
            return
        if isinstance(st, ast.AnnAssign):
            if st.value is not None:
                self.assign(st.target, self.ev(st.value))
            return
        if isinstance(st, ast.AugAssign):
            cur = self.ev(ast.copy_location(_load(st.target), st))
            self.assign(st.target, self.binop(st.op, cur, self.ev(st.value)))
            return
        if isinstance(st, ast.If):
            body = st.body if it.truth(self.ev(st.test)) else st.orelse
            for s in body:
                self.ex(s)
            return
        if isinstance(st, ast.For):
            seq = self.ev(st.iter)
            for x in self.iterate(seq):
                self.assign(st.target, x)
                try:
                    for s in st.body:
                        self.ex(s)
                except _Break:
                    break
                except _Continue:
                    continue
            else:
                for s in st.orelse:
                    self.ex(s)
            return
        if isinstance(st, ast.While):
            n = 0
            while it.truth(self.ev(st.test)):
                n += 1
                if n > 10000:
                    raise Unsupported("while bound")
                try:
                    for s in st.body:
                        self.ex(s)
                except _Break:
                    break
                except _Continue:
                    continue
            return
        if isinstance(st, ast.Break):
            raise _Break()
        if isinstance(st, ast.Continue):
            raise _Continue()
        if isinstance(st, ast.Pass):
            return
        if isinstance(st, ast.Raise):
            if st.exc is None:
                raise Unsupported("bare raise")
            exc = self.ev(st.exc)
            if isinstance(exc, type):
                exc = exc()
            raise Raised(exc)
        if isinstance(st, ast.Assert):
            if not it.truth(self.ev(st.test)):
                raise Raised(AssertionError())
            return
        if isinstance(st, ast.Try):
            try:
                for s in st.body:
                    self.ex(s)
            except Raised as r:
                for h in st.handlers:
                    types_ = self.ev(h.type) if h.type is not None else BaseException
                    if isinstance(r.exc, types_):
                        if h.name:
                            self.env[h.name] = r.exc
                        for s in h.body:
                            self.ex(s)
                        break
                else:
                    raise
            else:
                for s in st.orelse:
                    self.ex(s)
            finally:
                for s in st.finalbody:
                    self.ex(s)
            return
        if isinstance(st, (ast.Import, ast.ImportFrom)):
            ns = {}
            exec(compile(ast.Module([st], []), "<pysym>", "exec"), self.globs, ns)
            self.env.update(ns)
            return
        raise Unsupported("statement %s" % type(st).__name__)

    def assign(self, t, v):
        if isinstance(t, ast.Name):
            self.env[t.id] = v
        elif isinstance(t, (ast.Tuple, ast.List)):
            vs = list(self.iterate(v))
            if len(vs) != len(t.elts):
                raise Raised(ValueError("unpack"))
            for tt, vv in zip(t.elts, vs):
                self.assign(tt, vv)
        elif isinstance(t, ast.Subscript):
            obj = self.ev(t.value)
            k = self.ev(t.slice)
            if is_sym(k) or not isinstance(obj, (dict, list)):
                raise Unsupported("subscript store")
            obj[k] = v
        elif isinstance(t, ast.Attribute):
            obj = self.ev(t.value)
            if is_sym(obj):
                raise Unsupported("attribute store on symbolic")
            setattr(obj, self.mangle(t.attr), v)
        else:
            raise Unsupported("assign target")

    def iterate(self, seq):
        if isinstance(seq, SBytes):
            if seq.is_str:
                return [SBytes([c], True) for c in seq.items]
            return [SInt.from_bv(c) for c in seq.items]
        if isinstance(seq, (list, tuple, dict, range, set, frozenset, str, bytes, type({}.keys()), type({}.items()), type({}.values()))):
            return list(seq)
        if is_sym(seq):
            raise Unsupported("iterate %r" % (seq,))
        return list(seq)

    def mangle(self, attr):
        if self.cls and attr.startswith("__") and not attr.endswith("__"):
            return "_%s%s" % (self.cls.lstrip("_"), attr)
        return attr

    # ---- expressions
    def ev(self, e):
        it = self.it
        if isinstance(e, ast.Constant):
            return e.value
        if isinstance(e, ast.Name):
            if e.id in self.env:
                return self.env[e.id]
            if e.id in self.globs:
                return self.globs[e.id]
            if hasattr(builtins, e.id):
                return getattr(builtins, e.id)
            raise Raised(NameError(e.id))
        if isinstance(e, ast.Attribute):
            base = self.ev(e.value)
            name = self.mangle(e.attr)
            if isinstance(base, (SBytes, SInt)):
                return SymMethod(base, name)
            if z3.is_expr(base):
                raise Unsupported("attribute of z3 value")
            try:
                return getattr(base, name)
            except (Unsupported, Raised, Infeasible):
                raise
            except Exception as ex:
                raise Raised(ex)
        if isinstance(e, ast.BoolOp):
            if isinstance(e.op, ast.Or):
                v = False
                for x in e.values:
                    v = self.ev(x)
                    if it.truth(v):
                        return v
                return v
            v = True
            for x in e.values:
                v = self.ev(x)
                if not it.truth(v):
                    return v
            return v
        if isinstance(e, ast.UnaryOp):
            v = self.ev(e.operand)
            if isinstance(e.op, ast.Not):
                return not it.truth(v)
            if isinstance(e.op, ast.USub):
                if isinstance(v, SInt):
                    return SInt(-v.e)
                return -v
            raise Unsupported("unary op")
        if isinstance(e, ast.BinOp):
            return self.binop(e.op, self.ev(e.left), self.ev(e.right))
        if isinstance(e, ast.Compare):
            left = self.ev(e.left)
            res = True
            for op, c in zip(e.ops, e.comparators):
                right = self.ev(c)
                r = self.compare(op, left, right)
                if not it.truth(r):
                    return False
                left = right
            return res
        if isinstance(e, ast.Call):
            fn = self.ev(e.func)
            args = []
            for a in e.args:
                if isinstance(a, ast.Starred):
                    args += list(self.iterate(self.ev(a.value)))
                else:
                    args.append(self.ev(a))
            kw = {}
            for k in e.keywords:
                if k.arg is None:
                    kw.update(self.ev(k.value))
                else:
                    kw[k.arg] = self.ev(k.value)
            return it.apply(fn, args, kw)
        if isinstance(e, ast.Subscript):
            obj = self.ev(e.value)
            if isinstance(e.slice, ast.Slice):
                lo = self.ev(e.slice.lower) if e.slice.lower is not None else None
                hi = self.ev(e.slice.upper) if e.slice.upper is not None else None
                st = self.ev(e.slice.step) if e.slice.step is not None else None
                if isinstance(lo, SInt):
                    lo = it.ctx.concretize(lo.e, -4096, 4096)
                if isinstance(hi, SInt):
                    hi = it.ctx.concretize(hi.e, -4096, 4096)
                if isinstance(obj, SBytes):
                    return SBytes(obj.items[slice(lo, hi, st)], obj.is_str)
                return obj[slice(lo, hi, st)]
            k = self.ev(e.slice)
            if isinstance(obj, SBytes):
                if isinstance(k, SInt):
                    k = it.ctx.concretize(k.e, -len(obj), len(obj) - 1)
                try:
                    c = obj.items[k]
                except IndexError as ex:
                    raise Raised(ex)
                return SBytes([c], True) if obj.is_str else SInt.from_bv(c)
            if is_sym(k):
                raise Unsupported("symbolic subscript")
            try:
                return obj[k]
            except Exception as ex:
                raise Raised(ex)
        if isinstance(e, ast.Tuple):
            return tuple(self.ev(x) for x in e.elts)
        if isinstance(e, ast.List):
            return [self.ev(x) for x in e.elts]
        if isinstance(e, ast.Dict):
            d = {}
            for k, v in zip(e.keys, e.values):
                if k is None:
                    d.update(self.ev(v))
                else:
                    d[self.ev(k)] = self.ev(v)
            return d
        if isinstance(e, (ast.ListComp, ast.GeneratorExp)):
            if len(e.generators) != 1:
                raise Unsupported("nested comprehension")
            g = e.generators[0]
            out = []
            saved = dict(self.env)
            for x in self.iterate(self.ev(g.iter)):
                self.assign(g.target, x)
                if all(it.truth(self.ev(c)) for c in g.ifs):
                    out.append(self.ev(e.elt))
            self.env = saved
            return out
        if isinstance(e, ast.IfExp):
            return self.ev(e.body) if it.truth(self.ev(e.test)) else self.ev(e.orelse)
        if isinstance(e, ast.JoinedStr):
            parts = []
            for v in e.values:
                if isinstance(v, ast.Constant):
                    parts.append(v.value)
                else:
                    x = self.ev(v.value)
                    if is_sym(x):
                        parts.append("<symbolic>")   # only used for messages
                    else:
                        parts.append(format(x, self.ev(v.format_spec) if v.format_spec else ""))
            return "".join(parts)
        raise Unsupported("expression %s" % type(e).__name__)

    def binop(self, op, l, r):
        it = self.it
        if not is_sym(l) and not is_sym(r):
            import operator
            ops = {ast.Add: operator.add, ast.Sub: operator.sub, ast.Mult: operator.mul, ast.Mod: operator.mod,
                   ast.FloorDiv: operator.floordiv, ast.Div: operator.truediv, ast.Pow: operator.pow,
                   ast.LShift: operator.lshift, ast.RShift: operator.rshift, ast.BitAnd: operator.and_,
                   ast.BitOr: operator.or_, ast.BitXor: operator.xor}
            try:
                return ops[type(op)](l, r)
            except KeyError:
                raise Unsupported("binop")
            except Exception as ex:
                raise Raised(ex)
        if isinstance(op, ast.Add):
            if isinstance(l, (SBytes, bytes, str)) and isinstance(r, (SBytes, bytes, str)):
                a, b = conc_seq(l), conc_seq(r)
                if a.is_str != b.is_str:
                    raise Raised(TypeError("can't concat str and bytes"))
                return SBytes(a.items + b.items, a.is_str)
            if isinstance(l, (SInt, int)) and isinstance(r, (SInt, int)):
                return SInt(to_int_expr(l) + to_int_expr(r))
        if isinstance(op, ast.Sub) and isinstance(l, (SInt, int)) and isinstance(r, (SInt, int)):
            return SInt(to_int_expr(l) - to_int_expr(r))
        if isinstance(op, ast.Mult):
            if isinstance(l, (SInt, int)) and isinstance(r, (SInt, int)):
                return SInt(to_int_expr(l) * to_int_expr(r))
            if isinstance(l, SBytes) and isinstance(r, int):
                return SBytes(l.items * r, l.is_str)
        if isinstance(op, ast.FloorDiv) and isinstance(l, SInt) and isinstance(r, int) and r > 0:
            return SInt(l.e / r)      # z3 Int division is floor division for positive divisors
        if isinstance(op, ast.Mod):
            if isinstance(l, (str, SBytes)) and (isinstance(l, str) or l.is_str):
                if isinstance(l, SBytes):
                    raise Unsupported("symbolic format string")
                return percent_format(it, l, r)
            if isinstance(l, SInt) and isinstance(r, int) and r > 0:
                return SInt(l.e % r)
        raise Unsupported("binop %s on %s, %s" % (type(op).__name__, type(l).__name__, type(r).__name__))

    def compare(self, op, l, r):
        if not is_sym(l) and not is_sym(r):
            import operator
            ops = {ast.Eq: operator.eq, ast.NotEq: operator.ne, ast.Lt: operator.lt, ast.LtE: operator.le,
                   ast.Gt: operator.gt, ast.GtE: operator.ge, ast.Is: operator.is_, ast.IsNot: operator.is_not,
                   ast.In: lambda a, b: a in b, ast.NotIn: lambda a, b: a not in b}
            try:
                return ops[type(op)](l, r)
            except Exception as ex:
                raise Raised(ex)
        if isinstance(op, (ast.Is, ast.IsNot)):
            same = l is r
            return same if isinstance(op, ast.Is) else not same
        if isinstance(op, (ast.In, ast.NotIn)):
            if isinstance(r, (SBytes, bytes, str)) and isinstance(l, (SBytes, bytes, str)):
                a, b = conc_seq(l), conc_seq(r)
                if a.is_str != b.is_str:
                    raise Raised(TypeError("in: str/bytes mismatch"))
                n, m = len(a), len(b)
                if n == 0:
                    res = z3.BoolVal(True)
                else:
                    def _eq(x, y):
                        if z3.is_bv_value(y):
                            return char_is(x, y.as_long())
                        if z3.is_bv_value(x):
                            return char_is(y, x.as_long())
                        return x == y
                    alts = [z3.And(*[_eq(b.items[i + j], a.items[j]) for j in range(n)]) for i in range(0, m - n + 1)]
                    res = z3.Or(*alts) if alts else z3.BoolVal(False)
            elif isinstance(r, (tuple, list)) and all(isinstance(x, (bytes, str, SBytes)) for x in r):
                res = z3.Or(*[seq_eq(l, x) for x in r]) if r else z3.BoolVal(False)
            else:
                raise Unsupported("in on %s" % type(r).__name__)
            return res if isinstance(op, ast.In) else z3.Not(res)
        if isinstance(l, (SInt, int)) and isinstance(r, (SInt, int)) and not isinstance(l, bool) and not isinstance(r, bool):
            return int_cmp({ast.Eq: "==", ast.NotEq: "!=", ast.Lt: "<", ast.LtE: "<=", ast.Gt: ">", ast.GtE: ">="}[type(op)], l, r)
        if (isinstance(l, SFloat) and isinstance(r, (SFloat, SInt, int, float))) or \
                (isinstance(r, SFloat) and isinstance(l, (SInt, int, float))):
            if isinstance(l, bool) or isinstance(r, bool):
                raise Unsupported("float/bool compare")
            return float_cmp({ast.Eq: "==", ast.NotEq: "!=", ast.Lt: "<", ast.LtE: "<=", ast.Gt: ">", ast.GtE: ">="}[type(op)], l, r)
        if isinstance(l, (SBytes, bytes, str)) and isinstance(r, (SBytes, bytes, str)):
            if isinstance(op, ast.Eq):
                return seq_eq(l, r)
            if isinstance(op, ast.NotEq):
                return z3.Not(seq_eq(l, r))
        if isinstance(op, (ast.Eq, ast.NotEq)) and (l is None or r is None):
            return isinstance(op, ast.NotEq)
        raise Unsupported("compare %s on %s, %s" % (type(op).__name__, type(l).__name__, type(r).__name__))


def _load(t):
    if isinstance(t, ast.Name):
        return ast.Name(id=t.id, ctx=ast.Load())
    if isinstance(t, ast.Attribute):
        return ast.Attribute(value=t.value, attr=t.attr, ctx=ast.Load())
    if isinstance(t, ast.Subscript):
        return ast.Subscript(value=t.value, slice=t.slice, ctx=ast.Load())
    raise Unsupported("augassign target")


# ------------------------------------------------------------------ exploration driver

def model_value(m, v):
    """Concrete python value of a symbolic value under z3 model m."""
    if isinstance(v, SBytes):
        bs = bytes(m.eval(c, model_completion=True).as_long() for c in v.items)
        return bs.decode("latin1") if v.is_str else bs
    if isinstance(v, SInt):
        return m.eval(v.e, model_completion=True).as_long()
    if isinstance(v, SFloat):
        bits = m.eval(z3.fpToIEEEBV(v.e), model_completion=True)
        fv = m.eval(v.e, model_completion=True)
        if z3.is_fp_value(fv):
            if fv.isNaN():
                return float("nan")
            if fv.isInf():
                return float("-inf") if fv.isNegative() else float("inf")
            sign = -1.0 if fv.isNegative() else 1.0
            if fv.isZero():
                return sign * 0.0
            return float(struct.unpack(">d", struct.pack(">Q", (int(fv.sign()) << 63) | (fv.exponent_as_long(True) << 52) | fv.significand_as_long()))[0])
        raise Unsupported("no float model value")
    if z3.is_bool(v):
        return z3.is_true(m.eval(v, model_completion=True))
    if z3.is_bv(v) or z3.is_int(v):
        return m.eval(v, model_completion=True).as_long()
    if isinstance(v, (tuple, list)):
        return type(v)(model_value(m, x) for x in v)
    return v


def explore(path_fn, inputs, replay_fn=None, pre=None, max_paths=MAX_PATHS, timeout_ms=120000, extra_models=None):
    """path_fn(it: Interp) -> goal (z3 Bool / bool) evaluated on one path; inputs: dict name -> symbolic value.
    Returns a result dict for core.Run.  replay_fn(concrete_inputs) -> {'violated': bool, ...} is run natively on the
    real code for every 'sat' answer."""
    t0 = time.time()
    work = [[]]
    st = dict(paths=0, queries=0, unsat=0, sat=0, unknown=0, infeasible=0)
    entered = set()
    outcomes = {}
    sample = None
    while work:
        prefix = work.pop()
        ctx = Ctx(prefix, timeout_ms)
        if pre is not None:
            for c in (pre if isinstance(pre, (list, tuple)) else [pre]):
                ctx.assume(c)
        it = Interp(ctx, extra_models)
        try:
            goal = path_fn(it)
        except Infeasible:
            st["infeasible"] += 1
            st["queries"] += ctx.queries
            work += ctx.worklist
            continue
        except Unsupported as u:
            st["queries"] += ctx.queries
            return dict(st, verdict="error", detail="unsupported construct: %s" % u, secs=round(time.time() - t0, 2),
                        functions=sorted(entered | it.entered))
        entered |= it.entered
        work += ctx.worklist
        st["paths"] += 1
        st["queries"] += ctx.queries + 1
        if st["paths"] > max_paths:
            return dict(st, verdict="unknown", detail="path bound exceeded", secs=round(time.time() - t0, 2))
        if isinstance(goal, tuple):
            goal, tag = goal
            outcomes[tag] = outcomes.get(tag, 0) + 1
        if isinstance(goal, bool):
            goal = z3.BoolVal(goal)
        s = ctx.solver
        s.push()
        s.add(z3.Not(goal))
        r = s.check()
        if r == z3.unsat:
            st["unsat"] += 1
            if sample is None and len(ctx.pc) <= 6:
                s2 = z3.Solver()
                s2.add(*ctx.pc, z3.Not(goal))
                smt = s2.sexpr()
                sample = {"path_condition_terms": len(ctx.pc), "smtlib_excerpt": smt[:600] + ("..." if len(smt) > 600 else ""),
                          "answer": "unsat"}
        elif r == z3.sat:
            st["sat"] += 1
            m = s.model()
            cex = {k: model_value(m, v) for k, v in inputs.items()}
            rep = None
            if replay_fn is not None:
                try:
                    rep = replay_fn(cex)
                except Exception as ex:  # noqa
                    rep = {"violated": None, "detail": "replay crashed: %r" % (ex,)}
            return dict(st, verdict="cex", cex={k: (v.hex() if isinstance(v, bytes) else v) for k, v in cex.items()},
                        replay=rep, replays=1, secs=round(time.time() - t0, 2), functions=sorted(entered), outcomes=outcomes)
        else:
            st["unknown"] += 1
            return dict(st, verdict="unknown", detail="solver unknown on final obligation", secs=round(time.time() - t0, 2))
        s.pop()
    return dict(st, verdict="confirmed", secs=round(time.time() - t0, 2), functions=sorted(entered), outcomes=outcomes,
                sample=sample)
