"""refjose: a small, independent implementation of RFC 7515/7516/7518/7797/8037/8812 (+ ECDH-1PU, C20P drafts) directly on
pyca/cryptography, hashlib, zlib.  Used ONLY in replays (concrete oracle) and to mint foreign tokens; it shares no code with
joserfc.  Keys are plain JWK dicts."""
from __future__ import annotations
import base64, json, hmac, hashlib, struct, zlib, os
from cryptography.hazmat.primitives import hashes, serialization
from cryptography.hazmat.primitives.asymmetric import rsa, ec, padding, ed25519, ed448, x25519, x448, utils as asym_utils
from cryptography.hazmat.primitives.ciphers import Cipher, algorithms, modes
from cryptography.hazmat.primitives.ciphers.aead import AESGCM
from cryptography.hazmat.primitives.keywrap import aes_key_wrap, aes_key_unwrap
from cryptography.hazmat.primitives.kdf.concatkdf import ConcatKDFHash
from cryptography.hazmat.primitives.kdf.pbkdf2 import PBKDF2HMAC
from cryptography.hazmat.primitives import padding as sym_padding
from cryptography.exceptions import InvalidSignature, InvalidTag


class RefError(Exception):
    pass


def b64e(b: bytes) -> str:
    return base64.urlsafe_b64encode(b).rstrip(b"=").decode()


def b64d(s) -> bytes:
    if isinstance(s, str):
        s = s.encode("ascii")
    if any(c not in b"ABCDEFGHIJKLMNOPQRSTUVWXYZabcdefghijklmnopqrstuvwxyz0123456789-_" for c in s.rstrip(b"=")):
        raise RefError("bad base64url")
    if len(s.rstrip(b"=")) % 4 == 1:
        raise RefError("bad base64url length")
    return base64.urlsafe_b64decode(s.rstrip(b"=") + b"=" * (-len(s.rstrip(b"=")) % 4))


def i2b(n: int, length=None) -> str:
    length = length or max(1, (n.bit_length() + 7) // 8)
    return b64e(n.to_bytes(length, "big"))


def b2i(s: str) -> int:
    return int.from_bytes(b64d(s), "big")


CURVES = {"P-256": (ec.SECP256R1, 32), "P-384": (ec.SECP384R1, 48), "P-521": (ec.SECP521R1, 66), "secp256k1": (ec.SECP256K1, 32)}
OKP_PUB = {"Ed25519": ed25519.Ed25519PublicKey, "Ed448": ed448.Ed448PublicKey, "X25519": x25519.X25519PublicKey, "X448": x448.X448PublicKey}
OKP_PRIV = {"Ed25519": ed25519.Ed25519PrivateKey, "Ed448": ed448.Ed448PrivateKey, "X25519": x25519.X25519PrivateKey, "X448": x448.X448PrivateKey}
HASH = {"256": hashes.SHA256, "384": hashes.SHA384, "512": hashes.SHA512}
ES = {"ES256": ("P-256", "256"), "ES384": ("P-384", "384"), "ES512": ("P-521", "512"), "ES256K": ("secp256k1", "256")}


def pub_native(jwk):
    kty = jwk["kty"]
    if kty == "RSA":
        return rsa.RSAPublicNumbers(b2i(jwk["e"]), b2i(jwk["n"])).public_key()
    if kty == "EC":
        return ec.EllipticCurvePublicNumbers(b2i(jwk["x"]), b2i(jwk["y"]), CURVES[jwk["crv"]][0]()).public_key()
    if kty == "OKP":
        return OKP_PUB[jwk["crv"]].from_public_bytes(b64d(jwk["x"]))
    raise RefError("kty")


def priv_native(jwk):
    kty = jwk["kty"]
    if kty == "RSA":
        n, e, d = b2i(jwk["n"]), b2i(jwk["e"]), b2i(jwk["d"])
        if "p" in jwk:
            p, q = b2i(jwk["p"]), b2i(jwk["q"])
        else:
            p, q = rsa.rsa_recover_prime_factors(n, e, d)
        return rsa.RSAPrivateNumbers(p, q, d, rsa.rsa_crt_dmp1(d, p), rsa.rsa_crt_dmq1(d, q), rsa.rsa_crt_iqmp(p, q),
                                     rsa.RSAPublicNumbers(e, n)).private_key()
    if kty == "EC":
        return ec.derive_private_key(b2i(jwk["d"]), CURVES[jwk["crv"]][0]())
    if kty == "OKP":
        return OKP_PRIV[jwk["crv"]].from_private_bytes(b64d(jwk["d"]))
    raise RefError("kty")


def public_jwk(jwk):
    return {k: v for k, v in jwk.items() if k not in ("d", "p", "q", "dp", "dq", "qi", "oth", "k")} if jwk["kty"] != "oct" else dict(jwk)


# ------------------------------------------------------------------ JWS
def jws_sign(alg: str, jwk, signing_input: bytes) -> bytes:
    if alg.startswith("HS"):
        return hmac.new(b64d(jwk["k"]), signing_input, getattr(hashlib, "sha" + alg[2:])).digest()
    if alg.startswith("RS"):
        return priv_native(jwk).sign(signing_input, padding.PKCS1v15(), HASH[alg[2:]]())
    if alg.startswith("PS"):
        h = HASH[alg[2:]]
        return priv_native(jwk).sign(signing_input, padding.PSS(padding.MGF1(h()), h.digest_size), h())
    if alg in ES:
        crv, h = ES[alg]
        if jwk.get("crv") != crv:
            raise RefError("curve")
        der = priv_native(jwk).sign(signing_input, ec.ECDSA(HASH[h]()))
        r, s = asym_utils.decode_dss_signature(der)
        L = CURVES[crv][1]
        return r.to_bytes(L, "big") + s.to_bytes(L, "big")
    if alg == "EdDSA":
        if jwk.get("crv") not in ("Ed25519", "Ed448"):
            raise RefError("curve")
        return priv_native(jwk).sign(signing_input)
    raise RefError("alg")


def jws_verify(alg, jwk, signing_input: bytes, sig: bytes) -> bool:
    try:
        if not isinstance(alg, str):
            return False
        if alg.startswith("HS") and alg[2:] in HASH:
            if jwk["kty"] != "oct":
                return False
            return hmac.compare_digest(hmac.new(b64d(jwk["k"]), signing_input, getattr(hashlib, "sha" + alg[2:])).digest(), sig)
        if alg.startswith("RS") and alg[2:] in HASH:
            if jwk["kty"] != "RSA" or len(sig) != (pub_native(jwk).key_size + 7) // 8:      # RFC 8017 8.2.2 step 1
                return False
            pub_native(jwk).verify(sig, signing_input, padding.PKCS1v15(), HASH[alg[2:]]())
            return True
        if alg.startswith("PS") and alg[2:] in HASH:
            if jwk["kty"] != "RSA" or len(sig) != (pub_native(jwk).key_size + 7) // 8:      # RFC 8017 8.1.2 step 1
                return False
            h = HASH[alg[2:]]
            pub_native(jwk).verify(sig, signing_input, padding.PSS(padding.MGF1(h()), h.digest_size), h())
            return True
        if alg in ES:
            crv, h = ES[alg]
            if jwk["kty"] != "EC" or jwk.get("crv") != crv:
                return False
            L = CURVES[crv][1]
            if len(sig) != 2 * L:
                return False
            der = asym_utils.encode_dss_signature(int.from_bytes(sig[:L], "big"), int.from_bytes(sig[L:], "big"))
            pub_native(jwk).verify(der, signing_input, ec.ECDSA(HASH[h]()))
            return True
        if alg == "EdDSA":
            if jwk["kty"] != "OKP" or jwk.get("crv") not in ("Ed25519", "Ed448"):
                return False
            pub_native(jwk).verify(sig, signing_input)
            return True
    except (InvalidSignature, ValueError, KeyError, RefError, TypeError):
        return False
    return False


def compact_sign(header: dict, payload: bytes, jwk, header_text: bytes | None = None) -> str:
    """header_text lets the caller choose the exact JSON spelling of the protected header."""
    h = b64e(header_text if header_text is not None else json.dumps(header, separators=(",", ":")).encode())
    if header.get("b64") is False:
        si = h.encode() + b"." + payload
        p = payload.decode()
    else:
        p = b64e(payload)
        si = (h + "." + p).encode()
    return h + "." + p + "." + b64e(jws_sign(header["alg"], jwk, si))


def compact_verify(token: bytes, jwk, detached_payload: bytes | None = None):
    """-> (ok, header, payload).  ok only if structure, header and signature are valid for this key (no allow-list logic)."""
    try:
        parts = token.split(b".")
        if len(parts) != 3:
            return False, None, None
        header = json.loads(b64d(parts[0]))
        if not isinstance(header, dict):
            return False, None, None
        unencoded = header.get("b64") is False and "b64" in (header.get("crit") or [])
        if unencoded:
            payload = detached_payload if detached_payload else parts[1]
            si = parts[0] + b"." + payload
        else:
            payload = b64d(parts[1])
            si = parts[0] + b"." + parts[1]
        ok = jws_verify(header.get("alg"), jwk, si, b64d(parts[2]))
        return ok, header, payload
    except (RefError, ValueError, TypeError, KeyError):
        return False, None, None


def json_signature_verify(protected_seg: str | None, unprotected: dict | None, payload_seg: bytes, sig_seg: str, jwk):
    """One signature of a JSON serialization: -> (ok, merged header, b64 honoured?)."""
    try:
        prot = json.loads(b64d(protected_seg)) if protected_seg else {}
        if not isinstance(prot, dict):
            return False, None
        merged = dict(prot)
        merged.update(unprotected or {})
        si = (protected_seg or "").encode() + b"." + payload_seg
        return jws_verify(merged.get("alg"), jwk, si, b64d(sig_seg)), merged
    except (RefError, ValueError, TypeError, KeyError):
        return False, None


# ------------------------------------------------------------------ JWE
ENC = {"A128CBC-HS256": ("cbc", 16, "sha256"), "A192CBC-HS384": ("cbc", 24, "sha384"), "A256CBC-HS512": ("cbc", 32, "sha512"),
       "A128GCM": ("gcm", 16, None), "A192GCM": ("gcm", 24, None), "A256GCM": ("gcm", 32, None),
       "C20P": ("chacha", 32, 12), "XC20P": ("chacha", 32, 24)}       # drafts: draft-amringer-jose-chacha (nonce 96 / 192 bit)


def _hchacha20(key: bytes, nonce16: bytes) -> bytes:
    """HChaCha20 (draft-irtf-cfrg-xchacha): sub-key for XChaCha20 from the key and the first 16 nonce octets (pure Python)."""
    def rotl(v, c):
        return ((v << c) & 0xffffffff) | (v >> (32 - c))

    def qr(s, a, b, c, d):
        s[a] = (s[a] + s[b]) & 0xffffffff; s[d] = rotl(s[d] ^ s[a], 16)
        s[c] = (s[c] + s[d]) & 0xffffffff; s[b] = rotl(s[b] ^ s[c], 12)
        s[a] = (s[a] + s[b]) & 0xffffffff; s[d] = rotl(s[d] ^ s[a], 8)
        s[c] = (s[c] + s[d]) & 0xffffffff; s[b] = rotl(s[b] ^ s[c], 7)
    st = list(struct.unpack("<4I", b"expand 32-byte k")) + list(struct.unpack("<8I", key)) + list(struct.unpack("<4I", nonce16))
    for _ in range(10):
        qr(st, 0, 4, 8, 12); qr(st, 1, 5, 9, 13); qr(st, 2, 6, 10, 14); qr(st, 3, 7, 11, 15)
        qr(st, 0, 5, 10, 15); qr(st, 1, 6, 11, 12); qr(st, 2, 7, 8, 13); qr(st, 3, 4, 9, 14)
    return struct.pack("<8I", *(st[0:4] + st[12:16]))


def _chacha_aead(cek: bytes, iv: bytes):
    """-> (pyca ChaCha20Poly1305 object, 12-octet nonce); XChaCha20 = HChaCha20 sub-key + nonce 0000 || iv[16:24]"""
    from cryptography.hazmat.primitives.ciphers.aead import ChaCha20Poly1305
    if len(iv) == 24:
        return ChaCha20Poly1305(_hchacha20(cek, iv[:16])), b"\x00" * 4 + iv[16:]
    return ChaCha20Poly1305(cek), iv


def enc_cek_len(enc):
    kind, n, _ = ENC[enc]
    return 2 * n if kind == "cbc" else n


def content_encrypt(enc, cek, iv, aad, pt):
    kind, n, h = ENC[enc]
    if kind == "gcm":
        out = AESGCM(cek).encrypt(iv, pt, aad)
        return out[:-16], out[-16:]
    if kind == "chacha":
        a, nonce = _chacha_aead(cek, iv)
        out = a.encrypt(nonce, pt, aad)
        return out[:-16], out[-16:]
    mac_key, enc_key = cek[:n], cek[n:]
    padder = sym_padding.PKCS7(128).padder()
    data = padder.update(pt) + padder.finalize()
    e = Cipher(algorithms.AES(enc_key), modes.CBC(iv)).encryptor()
    ct = e.update(data) + e.finalize()
    al = struct.pack(">Q", len(aad) * 8)
    tag = hmac.new(mac_key, aad + iv + ct + al, getattr(hashlib, h)).digest()[:n]
    return ct, tag


def content_decrypt(enc, cek, iv, aad, ct, tag):
    kind, n, h = ENC[enc]
    if len(cek) != enc_cek_len(enc):
        raise RefError("cek length")
    if kind == "gcm":
        if len(iv) != 12 or len(tag) != 16:
            raise RefError("iv/tag length")
        try:
            return AESGCM(cek).decrypt(iv, ct + tag, aad)
        except InvalidTag:
            raise RefError("tag")
    if kind == "chacha":
        if len(iv) != h or len(tag) != 16:
            raise RefError("iv/tag length")
        try:
            a, nonce = _chacha_aead(cek, iv)
            return a.decrypt(nonce, ct + tag, aad)
        except InvalidTag:
            raise RefError("tag")
    if len(iv) != 16:
        raise RefError("iv length")
    mac_key, enc_key = cek[:n], cek[n:]
    al = struct.pack(">Q", len(aad) * 8)
    want = hmac.new(mac_key, aad + iv + ct + al, getattr(hashlib, h)).digest()[:n]
    if len(tag) != n or not hmac.compare_digest(want, tag):
        raise RefError("tag")
    d = Cipher(algorithms.AES(enc_key), modes.CBC(iv)).decryptor()
    try:
        data = d.update(ct) + d.finalize()
        u = sym_padding.PKCS7(128).unpadder()
        return u.update(data) + u.finalize()
    except ValueError:
        raise RefError("padding")


def concat_kdf(z, alg_id: str, keylen_bits, apu=b"", apv=b"", tag=None):
    def lp(b):
        return struct.pack(">I", len(b)) + b
    other = lp(alg_id.encode()) + lp(apu) + lp(apv) + struct.pack(">I", keylen_bits)
    if tag:
        other += lp(tag)
    return ConcatKDFHash(hashes.SHA256(), keylen_bits // 8, other).derive(z)


def ecdh(priv_jwk, pub_jwk):
    if priv_jwk["kty"] != pub_jwk["kty"] or priv_jwk["crv"] != pub_jwk["crv"]:
        raise RefError("curve mismatch")
    try:
        if priv_jwk["kty"] == "EC":
            return priv_native(priv_jwk).exchange(ec.ECDH(), pub_native(pub_jwk))
        return priv_native(priv_jwk).exchange(pub_native(pub_jwk))
    except (ValueError, TypeError, KeyError) as e:
        raise RefError("ecdh: %s" % e)


RSA_PAD = {"RSA1_5": lambda: padding.PKCS1v15(),
           "RSA-OAEP": lambda: padding.OAEP(padding.MGF1(hashes.SHA1()), hashes.SHA1(), None),
           "RSA-OAEP-256": lambda: padding.OAEP(padding.MGF1(hashes.SHA256()), hashes.SHA256(), None)}
KW = {"A128KW": 16, "A192KW": 24, "A256KW": 32}
GCMKW = {"A128GCMKW": 16, "A192GCMKW": 24, "A256GCMKW": 32}
PBES2 = {"PBES2-HS256+A128KW": (hashes.SHA256, 16), "PBES2-HS384+A192KW": (hashes.SHA384, 24), "PBES2-HS512+A256KW": (hashes.SHA512, 32)}


def recover_cek(header: dict, jwk, ek: bytes, enc: str, tag: bytes = b"", sender_pub=None):
    alg = header.get("alg")
    try:
        if alg == "dir":
            if ek:
                raise RefError("non-empty encrypted key in direct mode")
            if jwk["kty"] != "oct":
                raise RefError("key type")
            return b64d(jwk["k"])
        if alg in KW:
            k = b64d(jwk["k"])
            if jwk["kty"] != "oct" or len(k) != KW[alg]:
                raise RefError("key")
            return aes_key_unwrap(k, ek)
        if alg in GCMKW:
            k = b64d(jwk["k"])
            if jwk["kty"] != "oct" or len(k) != GCMKW[alg]:
                raise RefError("key")
            iv, t = b64d(header["iv"]), b64d(header["tag"])
            if len(iv) != 12 or len(t) != 16:
                raise RefError("gcmkw iv/tag")
            return AESGCM(k).decrypt(iv, ek + t, None)
        if alg in RSA_PAD:
            if jwk["kty"] != "RSA":
                raise RefError("key type")
            return priv_native(jwk).decrypt(ek, RSA_PAD[alg]())
        if alg in PBES2:
            h, n = PBES2[alg]
            if jwk["kty"] != "oct":
                raise RefError("key type")
            p2c = header["p2c"]
            if not isinstance(p2c, int) or isinstance(p2c, bool) or p2c < 1 or p2c > 10 ** 7:
                raise RefError("p2c")
            kek = PBKDF2HMAC(h(), n, alg.encode() + b"\x00" + b64d(header["p2s"]), p2c).derive(b64d(jwk["k"]))
            return aes_key_unwrap(kek, ek)
        if isinstance(alg, str) and (alg.startswith("ECDH-ES") or alg.startswith("ECDH-1PU")):
            epk = header["epk"]
            z = ecdh(jwk, epk)
            onepu = alg.startswith("ECDH-1PU")
            if onepu:
                if sender_pub is None:
                    raise RefError("sender key")
                z = z + ecdh(jwk, sender_pub)
            apu = b64d(header["apu"]) if header.get("apu") else b""
            apv = b64d(header["apv"]) if header.get("apv") else b""
            if "+" not in alg:
                if ek:
                    raise RefError("non-empty encrypted key in direct mode")
                return concat_kdf(z, enc, enc_cek_len(enc) * 8, apu, apv)
            kw = alg.split("+")[1]
            if onepu and ENC[enc][0] != "cbc":
                raise RefError("1PU+KW needs CBC-HMAC")
            kek = concat_kdf(z, alg, KW[kw] * 8, apu, apv, tag if onepu else None)
            return aes_key_unwrap(kek, ek)
    except RefError:
        raise
    except Exception as e:  # noqa  (InvalidUnwrap, InvalidTag, ValueError, KeyError ...)
        raise RefError("cek recovery failed: %s %s" % (type(e).__name__, e))
    raise RefError("unsupported alg %r" % (alg,))


def compact_decrypt(token: bytes, jwk, sender_pub=None):
    """-> plaintext (bytes) or raises RefError."""
    parts = token.split(b".")
    if len(parts) != 5:
        raise RefError("segments")
    try:
        header = json.loads(b64d(parts[0]))
    except ValueError:
        raise RefError("header")
    if not isinstance(header, dict) or not isinstance(header.get("enc"), str) or header["enc"] not in ENC:
        raise RefError("header")
    ek, iv, ct, tag = (b64d(p) for p in parts[1:])
    cek = recover_cek(header, jwk, ek, header["enc"], tag, sender_pub)
    pt = content_decrypt(header["enc"], cek, iv, parts[0], ct, tag)
    if header.get("zip") == "DEF":
        try:
            pt = zlib.decompress(pt, -15)
        except zlib.error:
            raise RefError("deflate")
    elif "zip" in header:
        raise RefError("zip")
    return pt, header


def compact_encrypt(header: dict, plaintext: bytes, cek: bytes, ek: bytes, iv: bytes, header_text: bytes | None = None) -> str:
    h = b64e(header_text if header_text is not None else json.dumps(header, separators=(",", ":")).encode())
    pt = plaintext
    if header.get("zip") == "DEF":
        c = zlib.compressobj(wbits=-15)
        pt = c.compress(pt) + c.flush()
    ct, tag = content_encrypt(header["enc"], cek, iv, h.encode(), pt)
    return ".".join([h, b64e(ek), b64e(iv), b64e(ct), b64e(tag)])


# ------------------------------------------------------------------ deterministic test keys (generated once per process)
_KEYS = {}


def test_key(kind: str):
    """kind: 'oct16','oct24','oct32','oct48','oct64','RSA2048','RSA1024','P-256','P-384','P-521','secp256k1','Ed25519','Ed448','X25519','X448'
    -> private JWK dict (RFC-conformant member lengths)."""
    if kind in _KEYS:
        return _KEYS[kind]
    if kind.startswith("oct"):
        n = int(kind[3:])
        jwk = {"kty": "oct", "k": b64e(bytes((i * 7 + n) % 256 for i in range(n)))}
    elif kind.startswith("RSA"):
        cache = os.path.join(os.path.dirname(os.path.abspath(__file__)), "keys", kind + ".json")
        if os.path.exists(cache):
            jwk = json.load(open(cache))
        else:
            k = rsa.generate_private_key(65537, int(kind[3:]))
            nums = k.private_numbers()
            pn = nums.public_numbers
            jwk = {"kty": "RSA", "n": i2b(pn.n), "e": i2b(pn.e), "d": i2b(nums.d), "p": i2b(nums.p), "q": i2b(nums.q),
                   "dp": i2b(nums.dmp1), "dq": i2b(nums.dmq1), "qi": i2b(nums.iqmp)}
    elif kind in CURVES:
        curve, L = CURVES[kind]
        d = int.from_bytes(hashlib.sha512(kind.encode()).digest() * 2, "big") % (2 ** (8 * L - 9)) + 2
        k = ec.derive_private_key(d, curve())
        pn = k.public_key().public_numbers()
        jwk = {"kty": "EC", "crv": kind, "x": i2b(pn.x, L), "y": i2b(pn.y, L), "d": i2b(d, L)}
    elif kind in OKP_PRIV:
        size = {"Ed25519": 32, "X25519": 32, "Ed448": 57, "X448": 56}[kind]
        seed = (hashlib.sha512(kind.encode()).digest() * 2)[:size]
        k = OKP_PRIV[kind].from_private_bytes(seed)
        x = k.public_key().public_bytes(serialization.Encoding.Raw, serialization.PublicFormat.Raw)
        jwk = {"kty": "OKP", "crv": kind, "x": b64e(x), "d": b64e(seed)}
    else:
        raise KeyError(kind)
    _KEYS[kind] = jwk
    return jwk


def json_decrypt(value: dict, jwk_for, sender_pub=None, any_recipient=False):
    """RFC 7516 JSON serialization (general or flattened).  jwk_for(merged_header) -> private JWK or None.
    Every recipient must yield the same CEK (at least one when any_recipient).  -> (plaintext, protected header)"""
    try:
        pseg = value["protected"]
        header = json.loads(b64d(pseg))
    except (ValueError, KeyError, TypeError):
        raise RefError("protected header")
    if not isinstance(header, dict) or not isinstance(header.get("enc"), str) or header["enc"] not in ENC:
        raise RefError("header")
    unprotected = value.get("unprotected") or {}
    if "recipients" in value:
        recipients = value["recipients"]
    else:
        recipients = [{k: value[k] for k in ("header", "encrypted_key") if k in value}]
    if not recipients:
        raise RefError("no recipients")
    aad = pseg.encode()
    if value.get("aad"):
        aad += b"." + b64e(b64d(value["aad"])).encode()
    iv, ct, tag = b64d(value["iv"]), b64d(value["ciphertext"]), b64d(value["tag"])
    ceks = []
    for r in recipients:
        merged = dict(header)
        merged.update(unprotected)
        merged.update(r.get("header") or {})
        try:
            jwk = jwk_for(merged)
            if jwk is None:
                raise RefError("no key")
            ceks.append(recover_cek(merged, jwk, b64d(r["encrypted_key"]) if r.get("encrypted_key") else b"", header["enc"], tag, sender_pub))
        except RefError:
            if not any_recipient:
                raise
    if not ceks or any(c != ceks[0] for c in ceks):
        raise RefError("recipients disagree on the content encryption key")
    pt = content_decrypt(header["enc"], ceks[0], iv, aad, ct, tag)
    if header.get("zip") == "DEF":
        try:
            pt = zlib.decompress(pt, -15)
        except zlib.error:
            raise RefError("deflate")
    elif "zip" in header:
        raise RefError("zip")
    return pt, header


def key_manage(alg: str, enc: str, jwk, cek: bytes | None = None, apu: bytes | None = None, apv: bytes | None = None,
               p2s: bytes = b"saltsalt", p2c: int = 1000, sender_priv=None, tag_for_1pu: bytes | None = None):
    """Producer side key management (independent of joserfc): -> (header members to add, encrypted key, cek)."""
    n = enc_cek_len(enc)
    extra = {}
    if alg == "dir":
        return extra, b"", b64d(jwk["k"])
    rnd = cek if cek is not None else bytes((i * 11 + 3) % 256 for i in range(n))
    if alg in KW:
        return extra, aes_key_wrap(b64d(jwk["k"]), rnd), rnd
    if alg in GCMKW:
        iv = b"\x07" * 12
        out = AESGCM(b64d(jwk["k"])).encrypt(iv, rnd, None)
        return {"iv": b64e(iv), "tag": b64e(out[-16:])}, out[:-16], rnd
    if alg in RSA_PAD:
        return extra, pub_native(jwk).encrypt(rnd, RSA_PAD[alg]()), rnd
    if alg in PBES2:
        h, kn = PBES2[alg]
        kek = PBKDF2HMAC(h(), kn, alg.encode() + b"\x00" + p2s, p2c).derive(b64d(jwk["k"]))
        return {"p2s": b64e(p2s), "p2c": p2c}, aes_key_wrap(kek, rnd), rnd
    if alg.startswith("ECDH-ES") or alg.startswith("ECDH-1PU"):
        eph = test_key(jwk["crv"] + "#eph") if (jwk["crv"] + "#eph") in _KEYS else _ephemeral(jwk["crv"])
        extra["epk"] = public_jwk(eph)
        if apu is not None:
            extra["apu"] = b64e(apu)
        if apv is not None:
            extra["apv"] = b64e(apv)
        z = ecdh(eph, public_jwk(jwk))
        if alg.startswith("ECDH-1PU"):
            z = z + ecdh(sender_priv, public_jwk(jwk))
        if "+" not in alg:
            return extra, b"", concat_kdf(z, enc, n * 8, apu or b"", apv or b"")
        kw = alg.split("+")[1]
        kek = concat_kdf(z, alg, KW[kw] * 8, apu or b"", apv or b"", tag_for_1pu)
        return extra, aes_key_wrap(kek, rnd), rnd
    raise RefError("alg")


def _ephemeral(crv):
    name = crv + "#eph"
    if crv in CURVES:
        curve, L = CURVES[crv]
        d = int.from_bytes(hashlib.sha512(name.encode()).digest() * 2, "big") % (2 ** (8 * L - 9)) + 2
        k = ec.derive_private_key(d, curve())
        pn = k.public_key().public_numbers()
        jwk = {"kty": "EC", "crv": crv, "x": i2b(pn.x, L), "y": i2b(pn.y, L), "d": i2b(d, L)}
    else:
        size = {"X25519": 32, "X448": 56}[crv]
        seed = (hashlib.sha512(name.encode()).digest() * 2)[:size]
        k = OKP_PRIV[crv].from_private_bytes(seed)
        x = k.public_key().public_bytes(serialization.Encoding.Raw, serialization.PublicFormat.Raw)
        jwk = {"kty": "OKP", "crv": crv, "x": b64e(x), "d": b64e(seed)}
    _KEYS[name] = jwk
    return jwk
