"""Table of claimed properties -> MANIFEST.json (python -m vlib.registry writes it)."""
import json, os

ROOT = os.path.dirname(os.path.dirname(os.path.abspath(__file__)))

E1 = "bounded symbolic execution of the real joserfc functions with CrossHair/z3 (leaf primitives replaced by contract stubs)"
E2 = "AST of the real kernels interpreted over z3 bit-vectors/integers (pysym); one unsat query per path"
BASE = ("Bounded: every claim holds only inside the bounds listed in the evidence file (coverage.bounds / outside_bounds). "
        "Trusted: CrossHair 0.0.110 + z3 5.1 soundness, CPython 3.12 semantics, contracts of the stubbed C/Rust leaves "
        "(pyca/cryptography, hashlib/hmac, binascii/base64, json, zlib, secrets).")

CLAIMS = {
    "C19": dict(engine="E2", technique="symbolic interpretation of util.py / rfc7518/util.py ASTs over z3 bit-vectors; per-path unsat queries (SMT)",
                text="For every octet string up to the bound, every byte string offered to the decoder up to the bound and every "
                     "integer below 2^528 the solver shows the codec obligations (round trip, alphabet, strict rejection, minimal "
                     "big-endian, fixed width) unsatisfiable-to-violate on every path of the real functions; counterexamples are "
                     "replayed natively.",
                ref="DESIGN.md §4 C19, §2.2"),
}

CLAIMS["C10"] = dict(engine="E1+E2", technique="CrossHair symbolic execution (z3) of the real ClaimsRegistry/JWTClaimsRegistry against an independent oracle; z3 FloatingPoint queries over the validate_exp/nbf/iat ASTs for float values",
    text="validate() is executed symbolically for every claims set / request option shape inside the bounds (unbounded integer now, "
         "leeway and time values; every JSON type of value; strings <= 1-2 chars; lists <= 2) and its verdict and error class are "
         "compared with the statement's predicate on every path; float-valued exp/nbf/iat (all of float64 incl. NaN/inf) are decided "
         "by z3's FP theory on the interpreted AST. Counterexamples are re-run concretely on the real code before being reported.",
    ref="DESIGN.md §4 C10")

CLAIMS["C17"] = dict(engine="E1+E2", technique="CrossHair symbolic execution (z3) of the real DeflateZipModel.decompress over a contract stub of zlib's Decompress object with an unbounded symbolic expansion size; pysym/z3 for the compress() framing slice",
    text="For every expanded size (an unbounded symbolic integer), both ways zlib may cut the output (tail left / output pending) and "
         "both header forms, every path of decompress() materialises at most 256,000 octets, returns the full plaintext when it fits "
         "and raises the exceeded-size error otherwise; compress() is shown to return exactly the raw DEFLATE body of zlib.compress. "
         "Counterexamples are replayed with real zlib (constant and pseudo-random plaintexts around the limit, a 64 MiB bomb under tracemalloc).",
    ref="DESIGN.md §4 C17")

CLAIMS["C01"] = dict(engine="E1+E2", technique="CrossHair symbolic execution (z3) of the real JWS verification code with opaque codecs, fake native keys and solver-chosen primitive verdicts; pysym/z3 for the ECDSA R||S length gate and split",
    text="For every header shape, key form, allow-list, signature count (0..2) and every combination of primitive verdicts inside the "
         "bounds, each path of deserialize_compact/deserialize_json/rfc7797.* returns only if >= 1 verification primitive was called, "
         "every one answered valid, and each was asked about exactly the received protected-header and payload segments with the key "
         "resolved for that signature and the RFC's parameters for its alg. Counterexamples are rebuilt as real tokens (real keys, "
         "independent signer) and judged by an independent verifier before being reported.",
    ref="DESIGN.md §4 C01")

CLAIMS["C05"] = dict(engine="E1", technique="CrossHair symbolic execution (z3 string theory) of the real registries and JWS/JWT operations over symbolic algorithm names and allow-lists, incl. two-call histories",
    text="For every algorithm name (any string up to the bound) and every allow-list (absent or up to 3 arbitrary names), given as "
         "algorithms= or registry=, the gate admits exactly the documented recommended set / the listed registered names; every JWS/JWT "
         "operation reaches a primitive or returns only with an admitted name, 'none' never verifies, and a second call's verdict equals "
         "its verdict in isolation even after the caller extends the first list. State leaks across executions surface as CrossHair "
         "non-determinism and are confirmed by a scripted concrete history.",
    ref="DESIGN.md §4 C05")

CLAIMS["C02"] = dict(engine="E1+E2", technique="CrossHair symbolic execution (z3) of the real JWE decryption code with opaque codecs, fake native keys and solver-chosen unwrap/AEAD verdicts; pysym/z3 for the CBC-HMAC MAC-input/key-split/tag-compare kernel and the IV size gate",
    text="For every key-management mode in the bound (incl. ECDH-1PU direct and +A128KW with the sender's key), both content-encryption classes, every IV/tag/CEK length class, presence of the "
         "encrypted key, zip, AAD, epk validity, 1..2 recipients and every combination of primitive verdicts, each path of "
         "decrypt_compact/decrypt_json returns only if the AEAD was asked once, answered valid, about AAD = the received protected "
         "segment [.aad], the decoded IV of the right size and the whole tag, under the CEK recovered from this token (same for all "
         "recipients, right length). Counterexamples become real tokens minted by an independent RFC 7516 implementation, tampered as "
         "the model says (incl. a re-spelt header twin) and are judged by that implementation.",
    ref="DESIGN.md §4 C02")

CLAIMS["C16"] = dict(engine="E1", technique="CrossHair symbolic execution (z3) of every consumer entry point with symbolic JSON values in place of the header and of each member, solver-chosen decoder/primitive failures",
    text="For every JSON value kind (null, bool, int, str, lists, objects) in place of the header object and of each header / epk member, "
         "every decoder failure class of the leaves and every primitive verdict, each path of deserialize_compact/json, rfc7797.*, "
         "decrypt_compact/json and jwt.decode returns or raises a JoseError/ValueError. 176 conditions, each specialised to one value "
         "kind. Counterexamples are rebuilt as real tokens (valid tag where the model needs post-authentication code) and re-run.",
    ref="DESIGN.md §4 C16")
CLAIMS["C15"] = dict(engine="E1", technique="CrossHair symbolic execution (z3) of the real registries and JWS/JWE producing/consuming operations against an oracle written from the statement, incl. caller-registered parameters and two-call histories",
    text="For every registered, algorithm-specific, caller-registered and unknown parameter with a value of every JSON kind, strict checking "
         "on and off, producing and consuming, an operation returns only if the statement's acceptance predicate holds for the header, and "
         "valid headers with caller-registered parameters are accepted; a second call judges as in isolation.",
    ref="DESIGN.md §4 C15")
CLAIMS["C06"] = dict(engine="E1+E2", technique="CrossHair symbolic execution (z3) of the real operations with fake native keys (symbolic key sizes) against the statement's key-suitability table; pysym/z3 for the unsafe-secret prefix check",
    text="For every algorithm x key kind x private/public x use x key_ops x operation inside the bounds (oct length and RSA modulus size "
         "symbolic) an operation (compact for every size; flattened / general JSON JWE with the key given, attached to the recipient or returned by a callable) returns only if the statement's table allows it; every byte string starting with a PEM/OpenSSH marker "
         "triggers the warning.",
    ref="DESIGN.md §4 C06")

CLAIMS["C03"] = dict(engine="E1+E2", technique="CrossHair symbolic execution (z3) of serialize->deserialize in an ideal-primitive environment; pysym/z3 for the ECDSA R||S codec over all (r, s)",
    text="For all 15 algorithm/curve variants, compact/flattened/general (1-2 signatures), b64 true/false/absent, attached and detached, key given as key / "
         "mixed-type key set (symbolic random pick) / callable, every payload up to 2 octets: verification of what was produced returns the original payload and "
         "headers (+ kid of the chosen key), sign and verify see the same signing input with the RFC's parameters; detach/re-attach works. ECDSA signatures are "
         "fixed-width for every (r, s) below 2^bits.", ref="DESIGN.md §4 C03")
CLAIMS["C04"] = dict(engine="E1", technique="CrossHair symbolic execution (z3) of encrypt->decrypt in an ideal-primitive environment (AEAD/key-wrap/RSA tables, opaque KDF and ECDH), with producer-operand conformance",
    text="For the alg x enc pairs in the bound, zip, three serializations, header placements, AAD, apu/apv, key or key set, 1-2 recipients of mixed algorithms and every "
         "plaintext/AAD up to the bound: decryption of what was encrypted returns the plaintext and the header members in their positions plus exactly the members the "
         "algorithm adds; 2-3 header-less recipients sharing alg all decrypt; one recipient of a mixed-type pair decrypts with only its own key; direct modes with several recipients and ECDH-1PU key wrapping with a non-CBC-HMAC enc are refused at encryption time.", ref="DESIGN.md §4 C04")
CLAIMS["C07"] = dict(engine="E1+E2", technique="operand-conformance conditions of the C01/C03 CrossHair harnesses against an RFC 7518 parameter table + pysym/z3 codec kernels; interop run vs an independent implementation as translation validation",
    text="The signing input, key octets, padding/hash/MGF/salt parameters and the R||S layout handed to / taken from the primitives equal the RFCs' on both the producing "
         "and the consuming side for every algorithm, and the consumer uses the received header octets whatever their JSON spelling; 390 concrete exchanges with an "
         "independent implementation agree.", ref="DESIGN.md §4 C07, §8.2")
CLAIMS["C08"] = dict(engine="E1+E2", technique="operand-conformance conditions of the C02/C04 CrossHair harnesses + pysym/z3 kernels (Concat-KDF other-info, CBC-HMAC, DEFLATE framing); interop run as translation validation",
    text="AAD, AL, CBC-HMAC key split and tag truncation, RSA paddings, AES-GCM key wrap iv/tag members, PBES2 salt/count/hash, Concat-KDF AlgorithmID/PartyU/PartyV/"
         "SuppPubInfo (+ tag and Ze||Zs for ECDH-1PU) and raw-DEFLATE framing handed to the primitives equal RFC 7516/7518 and the drafts, producing and consuming; "
         "918 concrete exchanges with an independent implementation agree.", ref="DESIGN.md §4 C08, §8.2")
CLAIMS["C09"] = dict(engine="E1+E2", technique="CrossHair symbolic execution (z3) of jwt.encode/decode over JWS and JWE transports (ideal round trip, adversarial decode); pysym/z3 on convert_claims with an abstract datetime",
    text="Encode->decode returns equal claims and header (+ typ default, overridable; + kid) without altering the caller's header; decode returns only after the transport's "
         "integrity verdict and only for a JSON object, otherwise the invalid-payload error; datetime exp/nbf/iat become floor(epoch seconds) for every instant and UTC offset.",
    ref="DESIGN.md §4 C09")
CLAIMS["C11"] = dict(engine="E2+E1", technique="pysym/z3 on the JWK export/import bindings with symbolic key numbers; CrossHair (z3) on member validation, import/export identity and PEM/DER export arguments with fake native keys",
    text="Exported EC members have exactly the curve's coordinate length and encode the right numbers for all x, y, d; RSA/OKP members map the right numbers/octets; "
         "validation refuses missing / mistyped / inconsistent members and partial CRT sets; import-then-export returns the given members; byte exports ask pyca for the "
         "right encoding, format and encryption.", ref="DESIGN.md §4 C11")
CLAIMS["C12"] = dict(engine="E1", technique="CrossHair symbolic execution (z3) of every exporting method and of the token-producing round trips with fake keys whose private accessors return distinctive values; transitive scan of the outputs",
    text="Public JWK / key-set exports contain no private member for any combination of private-named members in the stored JWK (incl. public-only keys carrying CRT "
         "members and extra parameters, keys generated as public-only with or without auto_kid, two-key sets of any type mix); private exports of public-only keys are errors; produced tokens, epk headers and thumbprint inputs contain no private member, "
         "octets or integers.", ref="DESIGN.md §4 C12")
CLAIMS["C13"] = dict(engine="E1+E2", technique="CrossHair symbolic execution (z3) of thumbprint/ensure_kid/KeySet with opaque JSON and a recording hash; pysym/z3 for the member encodings feeding the digest",
    text="The hashed text is the compact JSON of exactly the required members in sorted order under the selected digest for every key type, form, member order and "
         "optional member set; an auto kid equals the thumbprint, a present kid (even empty) is never overwritten and is stable.", ref="DESIGN.md §4 C13")
CLAIMS["C14"] = dict(engine="E1", technique="CrossHair symbolic execution (z3) of KeySet lookups and of the consuming / producing operations with key sets (random.choice = symbolic index)",
    text="Verification and decryption use exactly the key whose kid equals the token's (unknown kid -> invalid-key-id error, no kid only for a one-key set); producing "
         "with a kid (protected, shared unprotected or per-recipient header) uses that key, without a kid picks among the keys of the algorithm's type, records its kid and the public set consumes the token; set export/import "
         "keeps every key and every key has a kid; import_key_set keeps every entry with or without kid.", ref="DESIGN.md §4 C14")
CLAIMS["C18"] = dict(engine="E1", technique="CrossHair symbolic execution (z3) of the encryption pipeline and key generators with the RNGs replaced by a recording fresh-value source; inductive freshness argument",
    text="In every call each IV, CEK, key-wrap IV, PBES2 salt and ephemeral key is a value drawn during that call from secrets/os.urandom/the key generator, of exactly "
         "the required size or on the recipient's curve, no draw serves two roles, two calls and two recipients never share a value; generated keys receive the requested "
         "size/curve. Statistical quality is outside the claim.", ref="DESIGN.md §4 C18")
CLAIMS["C20"] = dict(engine="E1", technique="CrossHair symbolic execution (z3) of 12 operation kinds on shared objects with a deep before/after snapshot of all shared mutable state (frame condition) and atomic-publication check of lazy views",
    text="No operation writes any shared location (algorithm singletons, the module default and caller-made registry objects shared between calls, class tables, module containers, keys, key sets) except the idempotent, "
         "completely-published lazy JWK view / kid / cached public key of a Key; repeating a call and running another call first give the same outcomes. Independence and "
         "thread-safety follow from the empty write set.", ref="DESIGN.md §4 C20")

PENDING = {}


def manifest():
    props = [json.loads(l) for l in open(os.path.join(ROOT, "properties.jsonl"))]
    checks, na = [], []
    for p in props:
        pid = p["id"]
        c = CLAIMS.get(pid)
        if c is None:
            na.append({"property_id": pid, "reason": PENDING.get(pid, "check not built yet (work in progress in this session); not claimed until it runs clean on the unchanged tree")})
            continue
        checks.append({
            "property_id": pid,
            "quick_cmd": "bin/check %s --tier quick" % pid,
            "thorough_cmd": "bin/check %s --tier thorough" % pid,
            "evidence_file": "evidence/%s.json" % pid,
            "replay_cmd_template": "bin/check --replay {path}",
            "engine": c["engine"],
            "level_claimed": {"category": "model_checking", "text": c["text"], "design_ref": c["ref"]},
            "level_note": c.get("note", BASE),
            "technique": c["technique"],
        })
    return {
        "version": 1,
        "setup_cmd": "bin/setup",
        "hooks": {"guard": "JOSERFC_VERIF", "enable": "no source hooks are needed: checks import /repo/src directly and install stubs "
                  "by patching stdlib / pyca module attributes from outside; JOSERFC_VERIF=1 is exported by bin/check but read by nothing in /repo",
                  "baseline_off_cmd": "cd /repo && /venv/bin/python -m pytest -ra -q -p no:cacheprovider --timeout=900 --continue-on-collection-errors",
                  "source_commits": [], "add_only": True},
        "engines": [
            {"name": "E1", "path": "vlib/e1worker.py", "serves_properties": sorted(k for k, v in CLAIMS.items() if "E1" in v["engine"]),
             "kind_free_text": E1},
            {"name": "E2", "path": "vlib/pysym.py", "serves_properties": sorted(k for k, v in CLAIMS.items() if "E2" in v["engine"]),
             "kind_free_text": E2},
        ],
        "checks": checks,
        "not_applicable": na,
        "notes": "Solver-based checking only. quick: exit 0 = every condition's path tree exhausted and every query unsat within the stated bounds; "
                 "thorough = the quick plan judged strictly (floor) + a wider, wall-budgeted deep phase whose non-exhausted conditions are printed as "
                 "PARTIAL and listed in the evidence (never counted as confirmed). 1 = counterexample reproduced on the real code (VIOLATION line); "
                 "2 = inconclusive (never reported as success). Seeded changes and re-introduced defects with the checks that catch them: seeded/*/meta.json, "
                 "DESIGN.md 8.7. See DESIGN.md 8.6 for tiers.",
    }


if __name__ == "__main__":
    json.dump(manifest(), open(os.path.join(ROOT, "MANIFEST.json"), "w"), indent=1)
    print("MANIFEST.json written:", len(manifest()["checks"]), "checks")
