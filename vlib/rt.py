"""Tiny runtime shared by harness modules: counts harness executions (= explored paths) and records
which joserfc functions were entered (filled only in concrete witness runs)."""
COUNTERS = {"paths": 0}


def tick(name="paths"):
    COUNTERS[name] = COUNTERS.get(name, 0) + 1


def snapshot():
    return dict(COUNTERS)
