"""Tiny runtime shared by harness modules: counts harness executions (= explored paths) and records
which joserfc functions were entered (filled only in concrete witness runs)."""
COUNTERS = {"paths": 0}


def tick(name="paths"):
    COUNTERS[name] = COUNTERS.get(name, 0) + 1


WHY = []


def why(code):
    """diagnostics: remember why a harness is about to return False (the last entries are shown with a counterexample)"""
    WHY.append(str(code)[:300])
    return False


def snapshot():
    d = dict(COUNTERS)
    d["why"] = WHY[-4:]
    return d


def replay_by_rerun(glob, func, call, key=None, what=""):
    """Replay for harnesses that use NO stubs: the harness body already runs the real code with real primitives, so the
    counterexample is re-executed concretely (outside CrossHair); it reproduces iff the postcondition is false again."""
    args = eval("(" + call + ",)" if call.strip() else "()", dict(glob))
    try:
        r = glob[func](*args)
    except Exception as e:  # noqa
        return {"violated": True, "key": key or func, "detail": "%s(%s) raised %s: %s %s" % (func, call, type(e).__name__, e, what)}
    return {"violated": r is False, "key": key or func, "detail": "%s(%s) returned %r on the real code %s" % (func, call, r, what)}
